"""/verif/check <ID> [--tier quick|thorough] [--replay FILE]"""
import argparse
import os
import sys

HOME = os.environ.get('VERIF_HOME') or os.path.dirname(os.path.dirname(os.path.abspath(__file__)))
if HOME not in sys.path:
    sys.path.insert(0, HOME)


def main():
    ap = argparse.ArgumentParser()
    ap.add_argument('prop')
    ap.add_argument('--tier', default=os.environ.get('VERIF_TIER') or 'quick', choices=['quick', 'thorough'])
    ap.add_argument('--replay', default=None)
    a = ap.parse_args()
    try:
        seed = int(os.environ.get('VERIF_SEED', '1') or 1)
    except ValueError:
        seed = 1
    from vf import runner
    try:
        rc = runner.run_check(a.prop.upper(), a.tier, seed, replay=a.replay)
    except SystemExit:
        raise
    except BaseException:
        import traceback
        traceback.print_exc()
        print(f'HARNESS-ERROR property={a.prop.upper()} (exit 2, not a violation)')
        rc = 2
    sys.stdout.flush()
    os._exit(rc)


if __name__ == '__main__':
    main()
