"""C05 - order lifecycle: one terminal transition, idempotent execute/cancel, active registry, one trade per executed order."""

RULE = ("(a) Hypothesis-generated call histories on a real session state (bench driver, spot and futures, 1-2 symbols) through "
        "the real Broker/Sandbox API: entries (market / limit / stop by price relation), reduce-only exits, cancel, "
        "cancel-again on a final order, execute, execute-again on a final order, cancel-all (also between a market submit and "
        "its flush), flush of pending market orders, update_active_orders, price moves. After every call: every order's status "
        "equals the status implied by the observed transitions (ACTIVE -> EXECUTED | CANCELED once, never afterwards); a call "
        "on a final order leaves a snapshot of balances, positions, margin, resting-order tables and trade records "
        "bit-identical; the orders reported active (get_active_orders filtered by is_active, and count_active_orders) are "
        "exactly the submitted-not-final ones; every executed order is in exactly one trade's order list. (b) every order of "
        "generated backtest sessions (both simulators): same transition rule from the trace, and every executed order in "
        "exactly one closed trade. distinct = digest of config + call list; non-trivial = the history contains a repeated "
        "call on a final order, or a cancel-all with a pending market order.")
ASSUMPTIONS = [
    "store.orders registries are wiped when a position closes or entries are cancelled (documented reset); at a wipe every wiped order must be final",
    "a rejected submission (InsufficientMargin/Balance, OrderNotAllowed) ends the history",
    "snapshots compare floats exactly: a no-op must not touch them at all",
]
TECHNIQUE = "model-based testing of call histories through the Broker API with idempotence (snapshot) and registry oracles; per-order transition check over generated sessions"
MIN_NONTRIVIAL = {'quick': 300, 'thorough': 6000}
SYMS = ['BTC-USDT', 'ETH-USDT']


def snapshot(b, syms):
    import numpy as np
    ex = b.exchange
    d = dict(assets=dict(ex.assets), margin=float(ex.available_margin), wallet=float(ex.wallet_balance),
             trades=len(b.store.completed_trades.trades))
    for s in syms:
        p = b.positions[s]
        d['pos:' + s] = (p.qty, p.entry_price, p.previous_qty)
        base = s.split('-')[0]
        d['tables:' + s] = (np.array(ex.buy_orders[base][:]).tolist(), np.array(ex.sell_orders[base][:]).tolist())
        t = b.store.completed_trades.tempt_trades.get(f'VfEx-{s}')
        if t is not None:
            d['trade:' + s] = ([getattr(o, '_vf_ord', None) for o in t.orders], np.array(t.buy_orders[:]).tolist(), np.array(t.sell_orders[:]).tolist())
    if ex.type == 'spot':
        d['spot-sums'] = (dict(ex.stop_orders_sum), dict(ex.limit_orders_sum))
    return d


def run_history(cfg, ops):
    from vf.drive.bench import Bench, EX
    from jesse.exceptions import InsufficientMargin, InsufficientBalance, OrderNotAllowed
    syms = SYMS[:cfg['nsym']]
    prices = {s: 100.0 for s in syms}
    b = Bench(cfg['type'], cfg['fee'], 10_000.0, cfg.get('leverage', 2), 'cross', symbols=syms, prices=prices)
    store = b.store
    vios, flags, applied = [], set(), []
    status = {}
    seen = 0

    def feed():
        nonlocal seen
        evs = b.rec.events
        while seen < len(evs):
            e = evs[seen]
            seen += 1
            if e['ev'] == 'submit':
                status[e['ord']] = 'ACTIVE'
            elif e['ev'] == 'cancel' or (e['ev'] == 'execute' and e.get('phase') == 'end'):
                want = 'CANCELED' if e['ev'] == 'cancel' else 'EXECUTED'
                if e['before'] == 'ACTIVE':
                    if e['after'] != want:
                        vios.append((f"C05:{e['ev']}:active-order-not-made-final", f"order {e['ord']} {e['before']} -> {e['after']}"))
                    status[e['ord']] = e['after']
                elif e['after'] != e['before']:
                    vios.append((f"C05:{e['ev']}:status-changed-after-final", f"order {e['ord']} went {e['before']} -> {e['after']}"))
                    status[e['ord']] = e['after']

    def check_registry(what):
        for o in b.rec.orders:
            if o.status != status.get(o._vf_ord):
                vios.append((f'C05:{what}:status-differs-from-observed-transitions', f'order {o._vf_ord} is {o.status}, transitions imply {status.get(o._vf_ord)}'))
        for s in syms:
            expect = sorted(o._vf_ord for o in b.rec.orders if o.symbol == s and status.get(o._vf_ord) == 'ACTIVE')
            got = sorted(o._vf_ord for o in store.orders.get_active_orders(EX, s) if o.is_active)
            if got != expect:
                vios.append((f'C05:{what}:active-orders-reported', f'{s}: reported active {got}, submitted and not final {expect}'))
            cnt = store.orders.count_active_orders(EX, s)
            if cnt != len(expect):
                vios.append((f'C05:{what}:count_active_orders', f'{s}: count_active_orders = {cnt}, submitted and not final = {len(expect)}'))
        seen_in = {}
        trades = list(store.completed_trades.trades) + [t for t in store.completed_trades.tempt_trades.values()]
        for ti, t in enumerate(trades):
            for o in t.orders:
                seen_in.setdefault(o._vf_ord, []).append(ti)
        for o in b.rec.orders:
            n = len(seen_in.get(o._vf_ord, []))
            if status.get(o._vf_ord) == 'EXECUTED' and n != 1:
                vios.append((f'C05:{what}:executed-order-in-{n}-trades', f'order {o._vf_ord} ({o.side} {o.type} {o.qty}) appears in {n} trade order lists'))
            if status.get(o._vf_ord) != 'EXECUTED' and n != 0:
                vios.append((f'C05:{what}:non-executed-order-in-trade', f'order {o._vf_ord} status {o.status} appears in a trade'))

    try:
        for op in ops:
            kind = op[0]
            strat = None
            if kind in ('entry', 'exit', 'flip', 'cancel_all', 'update_active', 'price'):
                s = syms[op[1] % len(syms)]
                strat = b.strategies[s]
                p = b.positions[s]
                cur = p.current_price
            what = kind
            if kind == 'price':
                b.set_price(s, max(1.0, round(cur + op[2] * 0.5, 1)))
            elif kind == 'entry':
                side, qty, poff = op[2], op[3], op[4]
                if cfg['type'] == 'spot' and side == 'sell':
                    continue
                if p.is_open and ((p.qty > 0) != (side == 'buy')):
                    continue  # entries on the closing side are exits: use the exit op
                price = max(1.0, round(cur + poff * 0.5, 1))
                try:
                    if poff == 0:
                        strat.broker.buy_at_market(qty) if side == 'buy' else strat.broker.sell_at_market(qty)
                        flags.add('pending-market')
                    elif (side == 'buy') == (price < cur):
                        strat.broker.buy_at(qty, price) if side == 'buy' else strat.broker.sell_at(qty, price)
                    else:
                        strat.broker.start_profit_at(side, qty, price)
                except (InsufficientMargin, InsufficientBalance, OrderNotAllowed):
                    applied.append(list(op))
                    break
            elif kind == 'flip':
                # a plain (not reduce-only) market order on the closing side that is larger than the position: the position changes side,
                # reduce-only exits resting for the old side now sit on the SAME side as the position
                if cfg['type'] == 'spot' or not p.is_open:
                    continue
                q = abs(p.qty) * op[2]
                flags.add('flip' if op[2] > 1 else 'plain-order-on-the-closing-side')
                try:
                    strat.broker.sell_at_market(q) if p.qty > 0 else strat.broker.buy_at_market(q)
                    store.orders.execute_pending_market_orders()
                except (InsufficientMargin, InsufficientBalance, OrderNotAllowed):
                    applied.append(list(op))
                    break
                if len(op) > 3 and op[3] and p.is_open:
                    # ... and one of those left-over reduce-only orders is reached by the price
                    left = [o for o in b.rec.orders if o.symbol == s and o.is_active and o.reduce_only and o not in store.orders.to_execute
                            and ((o.qty > 0) == (p.qty > 0))]
                    if left:
                        flags.add('same-side-reduce-only-order-executed')
                        b.set_price(s, left[0].price)
                        left[0].execute()
            elif kind == 'exit':
                if not p.is_open:
                    continue
                qty = abs(p.qty) * op[2]
                price = max(1.0, round(cur + op[3] * 0.5, 1))
                try:
                    strat.broker.reduce_position_at(qty, price, cur)
                except (InsufficientMargin, InsufficientBalance, OrderNotAllowed):
                    applied.append(list(op))
                    break
            elif kind in ('cancel', 'execute'):
                act = [o for o in b.rec.orders if status.get(o._vf_ord) == 'ACTIVE' and o not in store.orders.to_execute]
                if not act:
                    continue
                o = act[op[1] % len(act)]
                if kind == 'cancel':
                    o.cancel()
                else:
                    b.set_price(o.symbol, o.price)
                    o.execute()
            elif kind in ('cancel_again', 'execute_again'):
                fin = [o for o in b.rec.orders if status.get(o._vf_ord) in ('EXECUTED', 'CANCELED')]
                if not fin:
                    continue
                o = fin[op[1] % len(fin)]
                flags.add('repeated-call-on-final-order')
                before = snapshot(b, syms)
                st0 = o.status
                (o.cancel if kind == 'cancel_again' else o.execute)()
                after = snapshot(b, syms)
                if o.status != st0:
                    vios.append((f'C05:{kind}:status-changed-after-final', f'order {o._vf_ord} was {st0}, now {o.status}'))
                if before != after:
                    diff = [k for k in before if before[k] != after.get(k)]
                    vios.append((f'C05:{kind}:final-order-call-had-effect', f'order {o._vf_ord} ({st0}): changed {diff}: {[(before[k], after.get(k)) for k in diff][:2]}'))
            elif kind == 'cancel_all':
                if store.orders.to_execute:
                    flags.add('cancel-all-with-pending-market-order')
                strat.broker.cancel_all_orders()
            elif kind == 'flush':
                store.orders.execute_pending_market_orders()
            elif kind == 'update_active':
                store.orders.update_active_orders(EX, s)
                # right after the prune the raw list (not only its is_active subset) holds no final order
                stale = [o._vf_ord for o in store.orders.get_active_orders(EX, s) if not o.is_active]
                if stale:
                    vios.append(('C05:update_active:final-orders-still-listed-as-active-after-the-prune', f'{s}: orders {stale} are final but still in get_active_orders() right after update_active_orders()'))
            else:
                raise ValueError(kind)
            applied.append(list(op))
            feed()
            check_registry(what)
            if vios:
                break
    except Exception as e:  # noqa
        import traceback
        vios.append((f'C05:raised-{type(e).__name__}', traceback.format_exc()[-700:]))
    finally:
        b.close()
    return vios, flags, applied


def session_orders(spec):
    """Per-order transition rule + one-trade-per-executed-order on a generated backtest."""
    from vf.drive import session
    r = session.run(spec, obs='off')
    vios = []
    st = {}
    for e in r['trace']:
        if e['ev'] == 'submit':
            st[e['ord']] = 'ACTIVE'
        elif e['ev'] in ('cancel', 'executed'):
            want = 'CANCELED' if e['ev'] == 'cancel' else 'EXECUTED'
            if e['before'] == 'ACTIVE':
                if e['after'] != want:
                    vios.append((f"C05:session:{e['ev']}:active-order-not-made-final", f"order {e['ord']}: {e['before']} -> {e['after']}"))
            elif e['after'] != e['before']:
                vios.append((f"C05:session:{e['ev']}:status-changed-after-final", f"order {e['ord']}: {e['before']} -> {e['after']} at t={e['t']}"))
            st[e['ord']] = e['after']
    for o in r['orders']:
        if o['status'] != st.get(o['ord']):
            vios.append(('C05:session:status-differs-from-observed-transitions', f"order {o['ord']} ends {o['status']}, transitions imply {st.get(o['ord'])}"))
    if r['final'] is not None and r['error'] is None:
        cnt = {}
        for t in r['final']['trades']:
            for od in t['orders']:
                cnt[od] = cnt.get(od, 0) + 1
        for o in r['orders']:
            n = cnt.get(o['ord'], 0)
            if o['status'] == 'EXECUTED' and n != 1:
                vios.append((f'C05:session:executed-order-in-{n}-trades', f"order {o['ord']} {o['side']} {o['type']} qty={o['qty']}"))
            if o['status'] != 'EXECUTED' and n:
                vios.append(('C05:session:non-executed-order-in-trade', f"order {o['ord']} status {o['status']}"))
    dup = sum(1 for e in r['trace'] if e['ev'] in ('cancel', 'executed') and e['before'] != 'ACTIVE')
    return vios, dup, r


def replay(case):
    if case.get('kind') == 'session':
        return session_orders(case['spec'])[0]
    return run_history(case['cfg'], [tuple(o) for o in case['ops']])[0]


def run_shard(acc, shard, nshards, seed, tier):
    from hypothesis import strategies as st
    from vf import runner
    from vf.gen import sessions
    known = runner.known_signatures('C05')
    qty = st.sampled_from([0.5, 1.0, 2.0, 0.3, 1.7])
    op = st.one_of(
        st.tuples(st.just('entry'), st.integers(0, 1), st.sampled_from(['buy', 'buy', 'sell']), qty, st.sampled_from([0, 0, -4, -2, 2, 4])),
        st.tuples(st.just('entry'), st.integers(0, 1), st.sampled_from(['buy', 'buy', 'sell']), qty, st.sampled_from([0, 0, -4, -2, 2, 4])),
        st.tuples(st.just('exit'), st.integers(0, 1), st.sampled_from([0.5, 1.0, 1.0, 0.25]), st.sampled_from([0, -6, -3, 3, 6])),
        st.tuples(st.just('flip'), st.integers(0, 1), st.sampled_from([1.5, 2.0, 3.0, 0.5]), st.booleans()),
        st.tuples(st.just('flip'), st.integers(0, 1), st.sampled_from([1.5, 2.0]), st.just(True)),
        st.tuples(st.just('exit'), st.integers(0, 1), st.sampled_from([0.5, 1.0]), st.sampled_from([-6, -3, 3, 6])),
        st.tuples(st.just('cancel'), st.integers(0, 9)), st.tuples(st.just('execute'), st.integers(0, 9)),
        st.tuples(st.just('execute'), st.integers(0, 9)),
        st.tuples(st.just('cancel_again'), st.integers(0, 9)), st.tuples(st.just('execute_again'), st.integers(0, 9)),
        st.tuples(st.just('cancel_all'), st.integers(0, 1)), st.just(('flush',)), st.just(('flush',)),
        st.tuples(st.just('update_active'), st.integers(0, 1)), st.tuples(st.just('price'), st.integers(0, 1), st.integers(-6, 6)),
    )
    cfgs = st.fixed_dictionaries(dict(type=st.sampled_from(['futures', 'futures', 'spot']), fee=st.sampled_from([0.0, 0.001]),
                                       leverage=st.sampled_from([1, 2, 10]), nsym=st.integers(1, 2)))
    strat = st.tuples(cfgs, st.lists(op, min_size=3, max_size=30 if tier == 'quick' else 60))

    def chk(case):
        cfg, ops = case
        vios, flags, applied = run_history(cfg, ops)
        nt = bool(flags & {'repeated-call-on-final-order', 'cancel-all-with-pending-market-order'})
        d = dict(cfg=cfg, ops=applied)
        return dict(key=d, nontrivial=nt, classes=sorted(flags) + ['bench:' + cfg['type']], sample=d if len(applied) < 9 else None, violations=vios, sub='call-histories')
    runner.hyp_search(acc, strat, chk, 300 if tier == 'quick' else 6000, seed, tier, known=known,
                      describe=lambda c: dict(cfg=c[0], ops=[list(o) for o in c[1]]))

    sess = sessions.session(minutes=(60, 160), max_data=0, warmup=(False,), program=dict(busy=True), align_len=True)

    def chk_s(spec):
        vios, dup, r = session_orders(spec)
        return dict(key=('s', spec['cfg'], spec['scripts'], spec['fast']), nontrivial=dup > 0 or len(r['orders']) > 3,
                    classes=['session:' + ('fast' if spec['fast'] else 'step')] + (['session:duplicate-call-on-final-order'] if dup else [])
                    + (['session:liquidation-order'] if any(e['ev'] == 'submit' and e.get('phase') == 'liquidation' for e in r['trace']) else []),
                    violations=vios, sub='session-orders',
                    sample=dict(cfg=spec['cfg'], routes=spec['routes'], orders=r['orders'][:4]) if dup else None)
    runner.hyp_search(acc, sess, chk_s, 16 if tier == 'quick' else 400, seed + 3, tier, known=known, shrink_calls=10, max_shrink_sigs=1,
                      describe=lambda spec: dict(kind='session', spec=spec))
    # orders the simulator creates itself: forced liquidations of held, highly leveraged isolated-margin positions
    liq = sessions.session(minutes=(60, 160), kinds=('futures',), modes=('isolated',), leverages=(10, 20, 50, 100, 125), max_data=0, warmup=(False,),
                           align_len=True, structural=False, program=dict(busy=True, hold=True, cycle=True))
    runner.hyp_search(acc, liq, lambda spec: dict(chk_s(spec), sub='session-orders-isolated-margin'), 12 if tier == 'quick' else 300, seed + 5, tier, known=known,
                      shrink_calls=10, max_shrink_sigs=1, describe=lambda spec: dict(kind='session', spec=spec))
