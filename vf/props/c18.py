"""C18 - DynamicNumpyArray behaves like a growing list of rows (model-based, histories).

Oracle: a plain Python list of rows (vf-local, no jesse code).  Two generators:
 (a) bounded-exhaustive enumeration of every mutator sequence up to a length bound over a small
     alphabet, bucket sizes 2 and 3 (complete read-back after the last operation; prefixes are
     enumerated as sequences of their own);
 (b) Hypothesis-generated long operation lists (bucket 1..12, row width 1..4, optional drop_at).
"""
import itertools

RULE = ("operation histories over {append, append_multiple(k), append(arr[i]) / append_multiple(arr[a:b]) (rows read from the array itself), delete(i), flush, setitem(i), setslice(a,b), "
        "get_last_item, get_past_item} interpreted against a Python-list model; after the checked operations "
        "len(), every index -n-1..n, and every slice [a:b] with a,b in {None,-n-2..n+2} (all of them when n<=6, a "
        "sample otherwise) are compared with the model. (a) exhaustive over all sequences up to the length bound "
        "for bucket sizes 2,3; (b) Hypothesis lists of up to 200 operations. distinct = digest of (config, op list); "
        "non-trivial = the history appends across a bucket boundary after a delete, or assigns/reads through a "
        "negative slice bound on a non-empty array, or drops rows (drop_at), or appends rows read from the array itself.")
ASSUMPTIONS = [
    "delete(i) is only generated with a valid non-negative index (the callers pass indices from np.where)",
    "slice step is always None (contiguous slicing, as stated)",
    "slice assignment is equal-length: the number of rows assigned equals the length of the addressed slice",
    "rows hold finite floats; comparison is exact (values are copied, never computed)",
    "with drop_at the model is re-based to the surviving suffix whenever the array reports a shorter length; "
    "only 'is a suffix of the full list, non-empty after an append, newest rows present' is required of a drop",
]
TECHNIQUE = "model-based testing against a list model: bounded-exhaustive op sequences + Hypothesis op lists with shrinking"
MIN_NONTRIVIAL = {'quick': 200, 'thorough': 2000}
EXHAUSTIVE = False  # the exhaustive sub-space is reported under coverage.subchecks


def _mk(bucket, width, drop_at):
    from jesse.libs import DynamicNumpyArray
    return DynamicNumpyArray((bucket, width), drop_at) if drop_at else DynamicNumpyArray((bucket, width))


class Runner:
    """Interprets an op list against the implementation and the model."""

    def __init__(self, bucket, width, drop_at=None):
        self.bucket, self.width, self.drop_at = bucket, width, drop_at
        self.arr = _mk(bucket, width, drop_at)
        self.model = []
        self.counter = 0
        self.vios = []
        self.flags = set()
        self.deleted_since_boundary = False

    def row(self):
        self.counter += 1
        return [self.counter * 10 + j + 0.25 for j in range(self.width)]  # fractional values: an integer-typed copy of the storage loses them

    def vio(self, sig, msg):
        self.vios.append(('C18:' + sig, msg))

    # -- read-back -------------------------------------------------------------------------
    def rebase_after_drop(self, appended):
        import numpy as np
        n = len(self.arr)
        if n == len(self.model):
            return
        if self.drop_at is None or n > len(self.model) or n < 1 or n < min(appended, 1):
            self.vio('len:mismatch', f'len(arr)={n} model={len(self.model)} drop_at={self.drop_at}')
            return
        self.flags.add('dropped')
        self.model = self.model[-n:]

    def check_reads(self, full=True):
        import numpy as np
        arr, m = self.arr, self.model
        n = len(m)
        if len(arr) != n:
            self.vio('len:mismatch', f'len(arr)={len(arr)} model={n}')
            return
        idxs = range(-n - 1, n + 1) if (full or n <= 6) else [-n - 1, -n, -1, 0, n - 1, n, n // 2, -(n // 2) - 1]
        for i in idxs:
            valid = -n <= i < n
            try:
                got = arr[i]
            except IndexError:
                if valid:
                    self.vio('getitem:raised-IndexError', f'arr[{i}] raised IndexError, n={n}')
                continue
            except Exception as e:  # noqa
                self.vio(f'getitem:raised-{type(e).__name__}', f'arr[{i}] raised {e!r}, n={n}')
                continue
            if not valid:
                self.vio('getitem:no-IndexError-out-of-range', f'arr[{i}] returned {got!r} but n={n}')
            elif list(got) != m[i]:
                self.vio('getitem:mismatch' + (':neg' if i < 0 else ''), f'arr[{i}]={list(got)} model={m[i]} n={n}')
        if n <= 6 or full:
            bounds = [None] + list(range(-n - 2, n + 3))
            pairs = itertools.product(bounds, bounds)
        else:
            bounds = [None, -n - 1, -n, -2, -1, 0, 1, n - 1, n, n + 1]
            pairs = itertools.product(bounds, bounds)
        for a, b in pairs:
            exp = m[a:b]
            try:
                got = arr[a:b]
            except Exception as e:  # noqa
                self.vio(f'getslice:raised-{type(e).__name__}:{_cls(a, b, n)}', f'arr[{a}:{b}] raised {e!r}, n={n}')
                continue
            got = [list(r) for r in got]
            if got != exp:
                self.vio(f'getslice:mismatch:{_cls(a, b, n)}', f'arr[{a}:{b}] -> {got} model {exp} (n={n}, bucket={self.bucket})')
            elif n and ((a is not None and a < 0) or (b is not None and b < 0)):
                self.flags.add('neg-slice-read')
        # get_last_item / get_past_item
        try:
            got = arr.get_last_item()
            if n == 0:
                self.vio('get_last_item:no-IndexError-empty', f'returned {got!r} on empty array')
            elif list(got) != m[-1]:
                self.vio('get_last_item:mismatch', f'{list(got)} vs {m[-1]}')
        except IndexError:
            if n:
                self.vio('get_last_item:raised-IndexError', f'n={n}')
        for j in range(0, n + 2):
            try:
                got = arr.get_past_item(j)
                if j >= n:
                    self.vio('get_past_item:no-IndexError-out-of-range', f'j={j} n={n} returned {got!r}')
                elif list(got) != m[-1 - j]:
                    self.vio('get_past_item:mismatch', f'j={j} {list(got)} vs {m[-1 - j]}')
            except IndexError:
                if j < n:
                    self.vio('get_past_item:raised-IndexError', f'j={j} n={n}')

    # -- mutators --------------------------------------------------------------------------
    def apply(self, op):
        """Returns False when the op is not valid on the model (sequence is then outside the domain)."""
        import numpy as np
        kind = op[0]
        m, arr = self.model, self.arr
        n = len(m)
        try:
            if kind == 'append':
                r = self.row()
                before = n
                arr.append(np.array(r))
                m.append(r)
                self._boundary(before, 1)
                self.rebase_after_drop(1)
            elif kind == 'appendm':
                k = op[1]
                rows = [self.row() for _ in range(k)]
                before = n
                arr.append_multiple(np.array(rows, dtype=float).reshape(k, self.width))  # k = 0: an empty batch of the right width
                m.extend(rows)
                self._boundary(before, k)
                self.rebase_after_drop(k)
            elif kind == 'append_own':
                # l.append(l[i]): the appended item is whatever indexing returns (a view into the array's own storage)
                i = op[1]
                if not (-n <= i < n):
                    return False
                before = n
                arr.append(arr[i])
                m.append(list(m[i]))
                self.flags.add('append-of-own-row')
                self._boundary(before, 1)
                self.rebase_after_drop(1)
            elif kind == 'appendm_own':
                a, b = op[1], op[2]
                rows = [list(r) for r in m[a:b]]
                if not rows:
                    return False
                before = n
                arr.append_multiple(arr[a:b])
                m.extend(rows)
                self.flags.add('append-of-own-row')
                self._boundary(before, len(rows))
                self.rebase_after_drop(len(rows))
            elif kind == 'delete':
                i = op[1]
                if not (0 <= i < n):
                    return False
                arr.delete(i, axis=0)
                del m[i]
                self.deleted_since_boundary = True
                self.flags.add('delete')
            elif kind == 'flush':
                arr.flush()
                m.clear()
                self.deleted_since_boundary = False
            elif kind == 'set':
                i = op[1]
                if not (-n <= i < n):
                    return False
                r = self.row()
                arr[i] = np.array(r)
                m[i] = r
            elif kind == 'setslice':
                a, b = op[1], op[2]
                cnt = len(m[a:b])
                if cnt == 0:
                    return False
                rows = [self.row() for _ in range(cnt)]
                arr[a:b] = np.array(rows)
                m[a:b] = rows
                if (a is not None and a < 0) or (b is not None and b < 0):
                    self.flags.add('neg-slice-write')
            else:
                raise ValueError(kind)
        except Exception as e:  # an operation valid on the list must not raise
            self.vio(f'{kind}:raised-{type(e).__name__}' + (':after-delete' if 'delete' in self.flags else ''),
                     f'{op} raised {e!r} with n={n}, bucket={self.bucket}, drop_at={self.drop_at}')
            return None
        return True

    def _boundary(self, before, k):
        if self.deleted_since_boundary and (before // self.bucket) != ((before + k) // self.bucket):
            self.flags.add('bucket-cross-after-delete')


def _cls(a, b, n):
    def c(x):
        if x is None:
            return 'none'
        if x < -n or x > n:
            return 'oob-neg' if x < 0 else 'oob-pos'
        return 'neg' if x < 0 else 'pos'
    return f'start={c(a)},stop={c(b)}'


def run_ops(cfg, ops, read_every=False):
    r = Runner(cfg['bucket'], cfg['width'], cfg.get('drop_at'))
    applied = 0
    for op in ops:
        ok = r.apply(op)
        if ok is False:
            return None, r  # outside the domain
        if ok is None:
            break
        applied += 1
        if read_every:
            r.check_reads(full=len(r.model) <= 8)
            if r.vios:
                break
    if not read_every and not r.vios:
        r.check_reads(full=True)
    return r.vios, r


def replay(case):
    vios, r = run_ops(case['cfg'], [tuple(o) for o in case['ops']], read_every=case.get('read_every', True))
    return vios or []


# --------------------------------------------------------------------------------------------
ALPHABET = ([('append',)] + [('appendm', k) for k in (0, 1, 2, 3, 4)] + [('delete', i) for i in (0, 1, 2, 3)] + [('flush',)]
            + [('set', i) for i in (-2, -1, 0, 1)]
            + [('setslice', a, b) for a, b in ((None, None), (None, 2), (0, None), (1, None), (-1, None), (-2, None), (-2, -1), (0, 1), (1, 3), (None, -1))])


CAPACITY_ALPHABET = [('append',), ('appendm', 0), ('appendm', 1), ('appendm', 2), ('appendm', 3), ('delete', 0), ('delete', 1), ('flush',)]


def exhaustive(acc, shard, nshards, maxlen, buckets=(2, 3), alphabet=None, name='exhaustive'):
    ALPHABET = alphabet or globals()['ALPHABET']
    space = 0
    for bucket in buckets:
        cfg = dict(bucket=bucket, width=1, drop_at=None)
        for L in range(1, maxlen + 1):
            for idx, seq in enumerate(itertools.product(ALPHABET, repeat=L)):
                space += 1
                if idx % nshards != shard:
                    continue
                vios, r = run_ops(cfg, seq, read_every=False)
                if vios is None:
                    acc.exclude('exhaustive: sequence invalid on the list model')
                    continue
                nt = bool(r.flags & {'bucket-cross-after-delete', 'neg-slice-write'})
                acc.case(key=(name, bucket, seq) if nt else None, nontrivial=nt, classes=['exh:' + f for f in r.flags],
                         sample=dict(cfg=cfg, ops=seq) if (nt and idx % 5000 == shard) else None, sub=f'{name}-len<={maxlen}')
                for sig, msg in vios:
                    acc.violation(sig, msg, dict(cfg=cfg, ops=seq, read_every=False), size=L * 1000 + len(str(seq)))
    acc.mark_exhaustive(f'{name}-len<={maxlen}', f'all {len(ALPHABET)}^L sequences, L=1..{maxlen}, bucket in {list(buckets)} (this shard: 1/{nshards}); total sequences enumerated over all shards = {space}')


def run_shard(acc, shard, nshards, seed, tier):
    from hypothesis import strategies as st
    from vf import runner
    exhaustive(acc, shard, nshards, maxlen=4 if tier == 'quick' else 5)
    # growth / shrink interplay needs longer histories than the full alphabet allows: a 7-letter capacity alphabet, buckets 1..3
    exhaustive(acc, shard, nshards, maxlen=6 if tier == 'quick' else 7, buckets=(1, 2, 3), alphabet=CAPACITY_ALPHABET, name='exhaustive-capacity')

    idx = st.integers(-14, 14)
    bound = st.one_of(st.none(), st.integers(-14, 14))
    op = st.one_of(
        st.just(('append',)), st.just(('append',)),
        st.tuples(st.just('appendm'), st.integers(0, 14)),
        st.tuples(st.just('delete'), st.integers(0, 12)),
        st.tuples(st.just('append_own'), st.sampled_from([0, -1, -1, 1, -2, 3, -5])),
        st.tuples(st.just('appendm_own'), bound, bound),
        st.tuples(st.just('set'), idx),
        st.tuples(st.just('setslice'), bound, bound),
        st.just(('flush',)),
    )
    cfgs = st.fixed_dictionaries(dict(bucket=st.integers(1, 12), width=st.integers(1, 4),
                                       drop_at=st.one_of(st.none(), st.none(), st.integers(2, 24))))
    maxops = 60 if tier == 'quick' else 200
    strat = st.tuples(cfgs, st.lists(op, min_size=1, max_size=maxops))

    def check(case):
        cfg, ops = case
        r = Runner(cfg['bucket'], cfg['width'], cfg.get('drop_at'))
        done = []
        for o in ops:
            ok = r.apply(o)
            if ok is False:
                continue  # skip ops that are invalid on the model at this point (construction, not rejection)
            done.append(o)
            if ok is None:
                break
            r.check_reads(full=len(r.model) <= 6)
            if r.vios:
                break
        nt = bool(r.flags & {'bucket-cross-after-delete', 'neg-slice-write', 'dropped', 'append-of-own-row'}) or ('neg-slice-read' in r.flags and len(done) > 3)
        case_desc = dict(cfg=cfg, ops=done, read_every=True)
        return dict(key=('hyp', cfg, done), nontrivial=nt, classes=sorted(r.flags) + (['drop_at'] if cfg.get('drop_at') else []),
                    sample=case_desc if len(done) < 12 else None, violations=r.vios, sub='hypothesis-op-lists', _desc=case_desc)

    def describe(case):
        return check(case)['_desc']

    runner.hyp_search(acc, strat, check, max_examples=(500 if tier == 'quick' else 5000), seed=seed, tier=tier,
                      known=runner.known_signatures('C18'), describe=describe)
