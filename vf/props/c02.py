"""C02 - resting orders fill exactly when and where the price reaches them; market orders fill at once."""

RULE = ("Hypothesis-generated sessions (lattice candles with gap probability up to 0.5, flats, prices exactly on O/H/L/C and on the "
        "previous close; order-rich ScriptedStrategy programs with 1-3 entry points, 1-3 + 1-3 exit ladders, modifications, "
        "cancels; spot and futures cross; trading timeframe 1m..15m; both simulators). Every order of every run is judged from "
        "the trace against the input candles normalised as documented (open := previous close, high/low widened to it): a "
        "LIMIT/STOP order filled in minute f must have its price inside minute f's range, f >= the first minute after its "
        "submission (the submission minute itself for an order created in reaction to a fill), and no earlier minute from its "
        "submission on may contain its price; a cancelled or never-finished order must not have had its price inside any "
        "minute it was exposed to; no execution before creation or after cancellation. A broker-created MARKET order must be "
        "executed with no candle processed between submission and execution, at its own price, which equals the current price "
        "(within the 0.015 % routing band for exits). distinct = digest of (candles, scripts, config); non-trivial = the run "
        "has >= 3 resting orders of which >= 1 filled and >= 1 survived a minute.")
ASSUMPTIONS = [
    "isolated-margin liquidation orders are exempt here (C09)",
    "an order created in reaction to a fill in minute i may or may not fill in minute i (that depends on the in-minute path: C08); it is only required to obey the rule from minute i+1 on",
    "prices are compared exactly (orders are placed on the candle lattice on purpose)",
    "fast mode runs use a session length that is a multiple of the chunk",
]
TECHNIQUE = "per-order trace oracle (reference range matcher over normalised input candles) on generated sessions, both simulators"
MIN_NONTRIVIAL = {'quick': 60, 'thorough': 3000}
MIN = 60_000


def normalise(rows):
    out = []
    prev_close = None
    for r in rows:
        o, c, h, l = r[1], r[2], r[3], r[4]
        if prev_close is not None and prev_close != o:
            o2 = prev_close
            h, l = max(h, o2), min(l, o2)
            o = o2
        out.append((o, c, h, l))
        prev_close = c
    return out


def candidates_in_chunk(spec, r, o, minute, norm):
    """How many resting orders of the symbol had their price inside the range of the fast-mode chunk that contains `minute`
    while they were active (classification of fast-mode findings only)."""
    from vf.drive.bench import T0
    step = 1
    for e in r['trace']:
        if e['ev'] == 'chunk':
            step = len(e['candles'])
            break
    a = minute - minute % step
    rng = norm[o['sym']][a:a + step]
    lo, hi = min(x[3] for x in rng), max(x[2] for x in rng)
    cnt = 0
    for q in r['orders']:
        if q['sym'] != o['sym'] or q['type'] == 'MARKET' or q['price'] is None:
            continue
        m0 = int((q['created_at'] - T0) // MIN)
        end = q['executed_at'] or q['canceled_at']
        mend = int((end - T0) // MIN) - 1 if end else 10 ** 9
        if m0 - 1 <= a + step - 1 and mend >= a and lo <= q['price'] <= hi:
            cnt += 1
    return cnt


def check_run(spec, r):
    from vf.drive.bench import T0
    vios, stats = [], dict(resting=0, filled=0, survived=0, classes=set())
    sim = 'fast' if spec.get('fast') else 'step'
    norm = {s: normalise(rows) for s, rows in spec['candles'].items()}
    n = len(next(iter(spec['candles'].values())))
    sub = {e['ord']: e for e in r['trace'] if e['ev'] == 'submit'}
    pos = {id(e): i for i, e in enumerate(r['trace'])}
    exe_idx, sub_idx, can = {}, {}, {}
    for i, e in enumerate(r['trace']):
        if e['ev'] == 'submit':
            sub_idx[e['ord']] = i
        elif e['ev'] == 'executed' and e['before'] == 'ACTIVE' and e['after'] == 'EXECUTED':
            exe_idx[e['ord']] = i
        elif e['ev'] == 'cancel' and e['before'] == 'ACTIVE' and e['after'] == 'CANCELED':
            can[e['ord']] = e
    aborted = r['error'] is not None
    fill_minute_ts = {e['ord']: e.get('minute_ts') for e in r['trace'] if e['ev'] == 'execute' and e['before'] == 'ACTIVE'}
    last_started, seen_min = {}, {}
    for e in r['trace']:
        if e['ev'] in ('minute', 'chunk'):
            k = 1 if e['ev'] == 'minute' else len(e['candles'])
            last_started[e['sym']] = seen_min.get(e['sym'], 0)
            seen_min[e['sym']] = seen_min.get(e['sym'], 0) + k
    # candidates per (symbol, minute): how many resting orders had their price inside the minute (for classification only)
    for o in r['orders']:
        s = sub.get(o['ord'])
        if s is None:
            continue
        if s['phase'] == 'liquidation':
            continue
        cand = norm[o['sym']]
        price = o['price']
        m0 = int((o['created_at'] - T0) // MIN)
        reaction = s['phase'] == 'match'
        if o['type'] == 'MARKET':
            if o['status'] == 'EXECUTED':
                if o['executed_at'] != o['created_at']:
                    vios.append((f'C02:sim={sim}:market-order-not-filled-at-submission-time',
                                 f"order {o['ord']} created_at {o['created_at']} executed_at {o['executed_at']} ({(o['executed_at'] - o['created_at']) / MIN} minutes later)"))
                between = [e['ev'] for e in r['trace'][sub_idx[o['ord']]:exe_idx.get(o['ord'], sub_idx[o['ord']])]
                           if e['ev'] in ('minute', 'chunk') and e['sym'] == o['sym']]
                if between:
                    vios.append((f'C02:sim={sim}:candle-processed-before-market-order-filled', f"order {o['ord']}: {len(between)} minute/chunk events between submit and fill"))
            elif o['status'] == 'ACTIVE' and not aborted and s['phase'] != 'terminate':
                vios.append((f'C02:sim={sim}:market-order-never-filled', f"order {o['ord']} {o['side']} qty={o['qty']} submitted at {o['created_at']} still ACTIVE at the end"))
            cur = s.get('cur')
            if cur is not None and price is not None:
                if abs(1 - price / cur) > 0.00015 * (1 + 1e-9):
                    vios.append((f'C02:sim={sim}:market-order-price-not-current-price', f"order {o['ord']} price {price!r} while current price was {cur!r}"))
            continue
        stats['resting'] += 1

        def inside(m):
            return cand[m][3] <= price <= cand[m][2]
        if price == cand[min(max(m0 - 1, 0), n - 1)][1] or any(price in cand[m][:4] for m in range(max(m0 - 1, 0), min(m0 + 2, n))):
            stats['classes'].add('order-at-exact-OHLC')
        if o['status'] == 'EXECUTED':
            stats['filled'] += 1
            f = int((o['executed_at'] - T0) // MIN) - 1
            if o['executed_at'] < o['created_at']:
                vios.append((f'C02:sim={sim}:executed-before-created', f"order {o['ord']}"))
                continue
            mts = fill_minute_ts.get(o['ord'])
            if mts is not None and o['executed_at'] != mts + MIN:
                vios.append((f'C02:sim={sim}:fill-time-is-not-the-end-of-the-minute-being-matched',
                             f"order {o['ord']} ({o['sym']}) executed_at {o['executed_at']} while the 1m candle being matched started at {mts} (expected {mts + MIN})"))
            if not (0 <= f < n):
                vios.append((f'C02:sim={sim}:fill-minute-out-of-session', f"order {o['ord']} f={f}"))
                continue
            if not inside(f):
                vios.append((f'C02:sim={sim}:filled-in-a-minute-that-did-not-reach-its-price',
                             f"order {o['ord']} {o['type']} {o['side']} price {price!r} filled in minute {f} whose (normalised) range is [{cand[f][3]!r}, {cand[f][2]!r}]"))
            lo = m0 - 1 if reaction else m0
            if f < lo:
                vios.append((f'C02:sim={sim}:filled-before-it-could-be-reached', f"order {o['ord']} submitted for minute {m0} ({'reaction' if reaction else 'step'}) filled in minute {f}"))
            early = [m for m in range(m0, f) if inside(m)]
            if early:
                stats['classes'].add('late-fill')
                multi = ''
                if sim == 'fast':
                    multi = ':multi-candidate-chunk' if candidates_in_chunk(spec, r, o, early[0], norm) >= 2 else ':single-candidate-chunk'
                vios.append((f'C02:sim={sim}:late-fill{multi}' + (':reaction-order' if reaction else ''),
                             f"order {o['ord']} {o['type']} {o['side']} price {price!r} (submitted for minute {m0}) filled in minute {f} although minute {early[0]} range "
                             f"[{cand[early[0]][3]!r}, {cand[early[0]][2]!r}] already contained it"))
            if f > m0:
                stats['survived'] += 1
        else:
            c = can.get(o['ord'])
            if c is not None:
                cm = int((c['canceled_at'] - T0) // MIN) - 1
                last = cm - 1 if c['phase'] in ('match', 'liquidation') else cm
                stats['classes'].add('cancelled-order')
            else:
                last = n - 1
                if aborted:
                    # the run was cut short: only minutes before the symbol's last started minute/chunk were certainly matched
                    last = min(last, last_started.get(o['sym'], 0) - 1)
            hit = [m for m in range(m0, min(last, n - 1) + 1) if inside(m)]
            if last >= m0:
                stats['survived'] += 1
            if hit:
                stats['classes'].add('missed-fill')
                multi = ''
                if sim == 'fast':
                    multi = ':multi-candidate-chunk' if candidates_in_chunk(spec, r, o, hit[0], norm) >= 2 else ':single-candidate-chunk'
                vios.append((f"C02:sim={sim}:missed-fill{multi}" + (':reaction-order' if reaction else ''),
                             f"order {o['ord']} {o['type']} {o['side']} price {price!r} was active from minute {m0} to {last} and minute {hit[0]} range "
                             f"[{cand[hit[0]][3]!r}, {cand[hit[0]][2]!r}] contained its price, but it was not filled"))
    return vios, stats


def run_case(spec):
    from vf.drive import session
    r = session.run(spec, obs='off')
    vios, stats = check_run(spec, r)
    if r['error'] and r['error']['type'] not in ('InsufficientMargin', 'InsufficientBalance', 'InvalidStrategy', 'OrderNotAllowed', 'Watchdog'):
        vios.append((f"C02:session-raised-{r['error']['type']}", r['error']['msg'][:300] + r['error']['tb'][-300:]))
    return vios, stats, r


def replay(case):
    return run_case(case['spec'])[0]


def run_shard(acc, shard, nshards, seed, tier):
    from vf import runner
    from vf.gen import sessions
    known = runner.known_signatures('C02')
    sess = sessions.session(minutes=(60, 180) if tier == 'quick' else (60, 400), max_data=1, warmup=(False, False, True), align_len=True,
                            program=dict(busy=True), modes=('cross',))

    def chk(spec):
        vios, stats, r = run_case(spec)
        nt = stats['resting'] >= 3 and stats['filled'] >= 1 and stats['survived'] >= 1
        cl = ['sim:' + ('fast' if spec['fast'] else 'step'), 'type:' + spec['cfg']['type'], 'tf:' + spec['routes'][0]['timeframe']] + sorted(stats['classes'])
        key = (spec['cfg'], spec['routes'], spec['scripts'], spec['candles'], spec['fast'])
        return dict(key=key, nontrivial=nt, classes=cl, violations=vios, _orders=r['orders'],
                    sample=dict(cfg=spec['cfg'], routes=spec['routes'], fast=spec['fast'], minutes=spec['n'], resting_orders=stats['resting'], filled=stats['filled'],
                                orders=r['orders'][:3]) if nt else None)
    runner.hyp_search(acc, sess, chk, 100 if tier == 'quick' else 2500, seed, tier, known=known, shrink_calls=25, max_shrink_sigs=2,
                      describe=lambda spec: dict(spec=spec))
    # hair gaps: the open differs from the previous close by 1-3 ticks at a price of 20000 ticks (under 0.015 % of the price)
    hair = sessions.session(minutes=(60, 180) if tier == 'quick' else (60, 400), max_data=0, warmup=(False,), align_len=True, program=dict(busy=True),
                            modes=('cross',), candle_opts=dict(start=20000, gap_sizes=(1, 2, 3), gap_ps=(3, 5, 8), max_body=2, max_wick=2))
    runner.hyp_search(acc, hair, lambda spec: dict(chk(spec), sub='hair-gap-sessions'), 25 if tier == 'quick' else 600, seed + 9, tier, known=known,
                      shrink_calls=25, max_shrink_sigs=2, describe=lambda spec: dict(spec=spec))
    # constructed: the price approaches a resting entry order, stops a ticks short of it, and the next minute opens b ticks beyond it
    # and never trades back: the order's price lies strictly inside the gap between a close and the next open. Price scales make the
    # same 2-6 tick gap anything from 1 % of the price down to a few millionths of it (below every 'close enough' float tolerance).
    from hypothesis import strategies as st
    from vf.gen import candles as gc

    @st.composite
    def gap_over_order(draw):
        scale = draw(st.sampled_from([400, 4000, 20000, 100000, 600000, 600000]))  # price in ticks
        tick = draw(st.sampled_from([0.5, 0.01, 0.25, 1.0]))
        up = draw(st.booleans())          # the order lies above the price it is submitted at
        long = draw(st.booleans())        # buy STOP / sell LIMIT above, buy LIMIT / sell STOP below
        dist = max(3, -(-scale * 3 // 10000)) + draw(st.integers(0, 6))  # at least 0.03 % away: a resting order, not a market order
        a, b = draw(st.integers(1, 3)), draw(st.integers(1, 3))
        lead, approach, after = draw(st.integers(1, 4)), draw(st.integers(1, 5)), draw(st.integers(2, 8))
        sgn = 1 if up else -1
        moves = [(0, 0, 1, 1, 5)] * lead  # flat minutes (the order is submitted after the first one)
        togo = dist - a
        for i in range(approach):
            stepk = togo // (approach - i)
            togo -= stepk
            moves.append((0, sgn * stepk, 0 if up else 1, 1 if up else 0, 7))  # wicks only away from the order
        moves.append((sgn * (a + b), sgn * draw(st.integers(0, 3)), 2 if up else 0, 0 if up else 2, 9))  # gaps over the order, never trades back
        for _ in range(after):
            moves.append((0, sgn * draw(st.integers(0, 2)), 1 if up else 0, 0 if up else 1, 4))
        rows = gc.rows_from_ticks(moves, scale, tick)
        n = len(rows)
        act = 'long' if long else 'short'
        row0 = dict(act=act, entry=[[1.0, sgn * dist]], shape='list', exits_at='none', sl=None, tp=None, upd=None, on_red=None, on_inc=None, cancel=False)
        idle = dict(act='none', entry=[[1.0, 0]], shape='list', exits_at='none', sl=None, tp=None, upd=None, on_red=None, on_inc=None, cancel=False)
        balance = 10_000.0
        unit = float(f"{balance * 0.1 / (scale * tick):.4g}")
        script = dict(rows=[row0] + [idle] * (n + 2), tick=tick, unit=unit, cycle=False)
        return dict(cfg=dict(type='futures', fee=draw(st.sampled_from([0.0, 0.001])), balance=balance, leverage=2, mode='cross', warm_up=0),
                    routes=[dict(symbol='BTC-USDT', timeframe='1m')], data=[], candles={'BTC-USDT': rows}, warmup=None, scripts={'BTC-USDT': script},
                    fast=draw(st.booleans()), n=n, ticks={'BTC-USDT': tick}, gap_rel=(a + b) / scale)

    def chk_gap(spec):
        d = chk(spec)
        rel = spec['gap_rel']
        d['classes'] = d['classes'] + ['gap-over-order:' + ('>=1e-3' if rel >= 1e-3 else '1e-4..1e-3' if rel >= 1e-4 else '1e-5..1e-4' if rel >= 1e-5 else '<1e-5')]
        d['nontrivial'] = any(o['type'] != 'MARKET' for o in (d.get('_orders') or [])) or d['nontrivial']
        d['sub'] = 'gap-over-order-sessions'
        return d
    runner.hyp_search(acc, gap_over_order(), chk_gap, 20 if tier == 'quick' else 500, seed + 10, tier, known=known,
                      shrink_calls=25, max_shrink_sigs=2, describe=lambda spec: dict(spec=spec))
