"""C08 - fills inside one minute follow a single continuous price path; split_candle yields two valid candles."""
import itertools

RULE = ("(a) exhaustive: every valid candle shape (O,H,L,C) on the half-tick lattice {0,0.5,..,5} x every split price in [L,H] on "
        "that lattice -> split_candle: both parts valid (low <= open,close <= high), first.open = O, second.close = C, max of "
        "highs = H, min of lows = L, and for a price other than O the parts meet at the price. (b) bounded-exhaustive in-minute "
        "ordering on a real session state: every candle shape on {100..104} (open = previous close), 2-3 resting orders with "
        "prices on {99..105} (entry ladder on a flat position, or take-profit/stop ladder around an open long or short), "
        "reaction exits placed by on_open_position / on_reduced_position at -2..+2 ticks from the fill price (or 1-2 re-entry orders placed by on_close_position after a full-size exit); the minute is "
        "run through backtest_mode._simulate_price_change_effect and the observed sequence of fills is judged step by step "
        "against the continuous path (O,L,H,C for close >= open, else O,H,L,C): the order filled next must be one the path "
        "reaches first among the orders active at that moment (ties admit any of them), an order created in reaction to a "
        "fill is only reachable on the part of the path after that fill, and when the minute ends no active order may be "
        "reachable on the rest of the path. (c) the same judge applied to every minute of Hypothesis-generated sessions with "
        "real-valued candles in the step simulator. distinct = digest of the case; non-trivial = >= 2 fills in the minute, or "
        "a reaction order whose price lies on the already travelled part of the path.")
ASSUMPTIONS = [
    "a reaction order placed exactly at the current point of the path may fill at once or not (both admitted)",
    "orders at equal first-touch time may fill in any order",
    "the judge reads the set of active orders from the observed submit/cancel/fill events (the strategy layer cancels everything when a position closes)",
    "the path rule is stated for the normal simulator only; the fast simulator is not judged here",
]
TECHNIQUE = "exhaustive enumeration on a price lattice + Hypothesis sessions, judged by a continuous price-path reference (validity predicate over admissible next fills)"
MIN_NONTRIVIAL = {'quick': 400, 'thorough': 20000}
EXHAUSTIVE = False


# ---------------------------------------------------------------------------------------------
def split_checks(o, h, l, c, p):
    import numpy as np
    from jesse.services.candle import split_candle
    candle = np.array([1.0, o, c, h, l, 7.0])
    try:
        res = split_candle(candle, p)
        a, b = res
    except Exception as e:  # noqa
        return [(f'C08:split_candle:raised-or-not-a-pair', f'split_candle(O={o},C={c},H={h},L={l}, price={p}) -> {type(e).__name__}: {e}')]
    vios = []
    shape = f"{'bullish' if c >= o else 'bearish'}:price-{'at-open' if p == o else 'at-close' if p == c else 'at-high' if p == h else 'at-low' if p == l else 'inside'}"
    for name, x in (('first', a), ('second', b)):
        if not (x[4] <= x[1] <= x[3] and x[4] <= x[2] <= x[3]):
            vios.append((f'C08:split_candle:{name}-part-invalid:{shape}', f'O={o} C={c} H={h} L={l} price={p}: {name} = {list(x)}'))
    if a[1] != o or b[2] != c:
        vios.append((f'C08:split_candle:open-or-close-not-kept:{shape}', f'O={o} C={c} H={h} L={l} price={p}: {list(a)} {list(b)}'))
    if max(a[3], b[3]) != h or min(a[4], b[4]) != l:
        vios.append((f'C08:split_candle:high-or-low-not-kept:{shape}', f'O={o} C={c} H={h} L={l} price={p}: {list(a)} {list(b)}'))
    if p != o and (a[2] != p or b[1] != p):
        vios.append((f'C08:split_candle:parts-do-not-meet-at-price:{shape}', f'O={o} C={c} H={h} L={l} price={p}: first.close={a[2]} second.open={b[1]}'))
    return vios


# ---------------------------------------------------------------------------------------------
class Path:
    """Piecewise linear price path with cumulative 'time' = distance travelled."""

    def __init__(self, o, h, l, c):
        self.pts = [o, l, h, c] if c >= o else [o, h, l, c]

    def first_touch(self, price, t0):
        """Smallest time >= t0 at which the path is at `price`, or None."""
        t = 0.0
        for a, b in zip(self.pts, self.pts[1:]):
            seg = abs(b - a)
            lo, hi = min(a, b), max(a, b)
            if lo <= price <= hi:
                tt = t + abs(price - a)
                if tt >= t0:
                    return tt
            t += seg
        return None


def judge_minute(candle, events, orders_before, sim='step'):
    """candle: [ts,o,c,h,l,v] (normalised); events: trace events of this symbol inside the minute in order
    (submit / cancel / executed); orders_before: dict ord -> price of orders active at the start.
    Returns (violations, stats)."""
    path = Path(candle[1], candle[3], candle[4], candle[2])
    active = {k: dict(price=p, born=0.0, reaction=False) for k, p in orders_before.items()}
    now = 0.0
    vios, fills, flags = [], 0, set()
    pending_market = {}
    point = None  # price of the last fill of this minute = where the path stands
    at_open = False  # the last fill was at the very point where the path stood (the open of the remaining piece)
    here = candle[1]
    for e in events:
        if e['ev'] == 'submit':
            if e['price'] is None:
                continue
            if e['type'] == 'MARKET' and e.get('phase') == 'liquidation':
                continue  # the liquidation order carries the bankruptcy price by definition (C09)
            if e['type'] == 'MARKET' and point is not None and abs(1 - e['price'] / point) > 0.00015 * (1 + 1e-9) \
                    and not (at_open and abs(1 - e['price'] / candle[2]) <= 0.00015 * (1 + 1e-9)):
                # (a fill exactly at the open of the remaining piece does not split it - the property excepts the open -: the
                # hook then sees the close of the minute as the price)
                # a hook runs at the fill that triggered it: what it sees as the price, and therefore the price of a market order
                # it submits (or of an exit it declares within 0.015 %), is that point of the path
                vios.append((f'C08:sim={sim}:market-order-priced-off-the-current-path-position',
                             f"path {path.pts}: MARKET order {e['ord']} submitted inside the hook of a fill at {point} carries the price {e['price']}"))
            if e['type'] == 'MARKET':
                # an exit declared within 0.015% of the price becomes a MARKET order that keeps the DECLARED price; while it waits in
                # the to-execute queue the matching loop fills it like a resting order when the path reaches that price
                # (which moves the position on the path); a market order submitted by a hook at the current price is therefore
                # filled at once, before the path moves on. Only one whose price is off the remaining path waits for the flush.
                pending_market[e['ord']] = e['price']
                continue
            active[e['ord']] = dict(price=e['price'], born=now, reaction=True)
            ft = path.first_touch(e['price'], 0.0)
            if ft is not None and ft < now and path.first_touch(e['price'], now) is None:
                flags.add('reaction-order-on-travelled-part-only')
        elif e['ev'] == 'cancel' and e['before'] == 'ACTIVE':
            active.pop(e['ord'], None)
            pending_market.pop(e['ord'], None)
        elif e['ev'] == 'fill' and e['before'] == 'ACTIVE':  # the moment execute() is entered: hooks (and their orders) come after it
            me = active.pop(e['ord'], None)
            if me is None:
                mp = pending_market.pop(e['ord'], None)
                if mp is not None:
                    tm = path.first_touch(mp, now)
                    if tm is not None:
                        now = tm
                        at_open, point, here = (mp == here), mp, mp
                        flags.add('pending-market-order-filled-on-the-path')
                continue  # market order
            fills += 1
            tf = path.first_touch(me['price'], now)
            if tf is None:
                kind = 'reaction-order-filled-on-travelled-part' if me['reaction'] else 'filled-off-the-remaining-path'
                vios.append((f'C08:sim={sim}:{kind}', f"order {e['ord']} at {me['price']} filled although the path {path.pts} had already passed time {now} (no touch left)"))
                continue
            for k, mp in pending_market.items():
                tq = path.first_touch(mp, now)
                if tq is not None and tq < tf:
                    vios.append((f'C08:sim={sim}:resting-order-filled-before-a-pending-market-order-reached-earlier',
                                 f"path {path.pts}: order {e['ord']} at {me['price']} (reached at t={tf}) filled while the MARKET order {k} at {mp} (reached at t={tq}) was still waiting; position on the path was t={now}"))
                    break
            for k, other in active.items():
                to = path.first_touch(other['price'], now)
                if to is not None and to < tf:
                    if other['reaction'] and to == now and other['born'] == now:
                        continue  # a reaction order exactly at the current point: either
                    vios.append((f"C08:sim={sim}:filled-out-of-path-order:{'bullish' if path.pts[1] <= path.pts[0] else 'bearish'}",
                                 f"path {path.pts}: order {e['ord']} at {me['price']} (reached at t={tf}) filled before order {k} at {other['price']} (reached at t={to}); position on the path was t={now}"))
                    break
            now = tf
            at_open, point, here = (me['price'] == here), me['price'], me['price']
    for k, other in active.items():
        to = path.first_touch(other['price'], now)
        if to is not None:
            if other['reaction'] and to == now and other['born'] == now:
                continue
            vios.append((f"C08:sim={sim}:reachable-order-left-unfilled" + (':reaction-order' if other['reaction'] else ''),
                         f"path {path.pts}: order {k} at {other['price']} is reached at t={to} >= {now} but the minute ended without filling it"))
    for k, mp in pending_market.items():
        tq = path.first_touch(mp, now)
        if tq is not None:
            vios.append((f'C08:sim={sim}:pending-market-order-on-the-remaining-path-not-filled-in-the-minute',
                         f"path {path.pts}: MARKET order {k} at {mp} is reached at t={tq} >= {now} but the minute ended without filling it"))
    if fills >= 2:
        flags.add('2+-fills-in-minute')
    return vios, dict(fills=fills, flags=flags)


# ---------------------------------------------------------------------------------------------
def lattice_case(case):
    """case: dict(o,h,l,c, family, orders=[(price, frac)], react_off, pos_side)"""
    import numpy as np
    from vf.drive.bench import Bench, EX, T0
    from jesse.strategies import Strategy
    from jesse.modes import backtest_mode
    react = case.get('react_off')

    class S(Strategy):
        def should_long(self):
            return False

        def should_cancel_entry(self):
            return False

        def go_long(self):
            pass

        def _react(self):
            if react is None or self.position.is_close or getattr(self, '_done', 0) >= 2:
                return
            self._done = getattr(self, '_done', 0) + 1
            p = self.position.current_price + react
            try:
                self.broker.reduce_position_at(abs(self.position.qty) * 0.5, p, self.price)
            except Exception:  # noqa - e.g. "doesn't seem to be for reducing": not placed
                pass

        def on_close_position(self, order):
            # re-entry the moment the position is closed: 1-2 fresh entry orders around the fill price
            cr = case.get('close_react')
            if cr is None or getattr(self, '_reentered', False):
                return
            self._reentered = True
            off, m = cr
            cur = self.position.current_price
            for j in range(m):
                p = cur + off + (j if off > 0 else -j)
                try:
                    if p > cur:
                        self.broker.start_profit_at('buy', 1.0, p)
                    elif p < cur:
                        self.broker.buy_at(1.0, p)
                except Exception:  # noqa
                    pass

        def on_open_position(self, order):
            self._react()

        def on_reduced_position(self, order):
            self._react()

    b = Bench('futures', 0.0, 1_000_000.0, 10, 'cross', prices={'BTC-USDT': float(case['o'])}, strategy_cls=S)
    sym = 'BTC-USDT'
    try:
        strat = b.strategies[sym]
        fam = case['family']
        if fam != 'entry':
            o0 = b.order(sym, 'buy' if fam == 'exit-long' else 'sell', 'MARKET', 4.0, float(case['o']))
            saved, strat_react = react, None
            o0.execute()
            strat._done = 0
        orders_before = {}
        for price, frac in case['orders']:
            if fam == 'entry':
                od = b.order(sym, 'buy', 'LIMIT' if price < case['o'] else 'STOP', 1.0, float(price))
            else:
                side = 'sell' if fam == 'exit-long' else 'buy'
                typ = 'LIMIT' if (price > case['o']) == (fam == 'exit-long') else 'STOP'
                od = b.order(sym, side, typ, 4.0 * frac, float(price), reduce_only=True)
            orders_before[od._vf_ord] = float(price)
        start = len(b.rec.events)
        b.minute += 1
        ts = T0 + b.minute * 60_000
        b.store.app.time = ts + 60_000
        candle = np.array([ts, float(case['o']), float(case['c']), float(case['h']), float(case['l']), 5.0])
        b.store.candles.add_candle(candle, EX, sym, '1m', with_execution=False, with_generation=False)
        backtest_mode._simulate_price_change_effect(candle, EX, sym)
        evs = []
        for e in b.rec.events[start:]:
            if e['ev'] == 'submit':
                evs.append(dict(ev='submit', ord=e['ord'], type=e['type'], price=e['price']))
            elif e['ev'] == 'cancel':
                evs.append(dict(ev='cancel', ord=e['ord'], before=e['before']))
            elif e['ev'] == 'execute' and e.get('phase') == 'begin':
                evs.append(dict(ev='fill', ord=e['ord'], before=e['before']))
        vios, st = judge_minute(list(candle), evs, orders_before)
    finally:
        b.close()
    return vios, st


def lattice_space(families=('entry', 'exit-long', 'exit-short')):
    shapes = [(o, h, l, c) for o, h, l, c in itertools.product(range(100, 105), repeat=4) if l <= min(o, c) and h >= max(o, c)]
    prices = list(range(99, 106))
    for fam in families:
        for (o, h, l, c) in shapes:
            for n in (2, 3):
                for ps in itertools.combinations_with_replacement(prices, n):
                    fr_sets = [(0.25,) * n, (1.0,) * n] if fam != 'entry' else [(1.0,) * n]
                    for fr in fr_sets:
                        for react in (None, -2, -1, 1, 2):
                            yield dict(o=o, h=h, l=l, c=c, family=fam, orders=list(zip(ps, fr)), react_off=react)
            if fam != 'entry':
                # exits for the whole position (1-2 of them) and a strategy that re-enters from on_close_position
                for n in (1, 2):
                    for ps in itertools.combinations_with_replacement(prices, n):
                        for off in (-2, -1, 1, 2):
                            for m in (1, 2):
                                yield dict(o=o, h=h, l=l, c=c, family=fam, orders=[(p_, 1.0) for p_ in ps], react_off=None, close_react=[off, m])


# ---------------------------------------------------------------------------------------------
def session_minutes(spec):
    from vf.drive import session
    r = session.run(spec, obs='off')
    vios, nfl, flags = [], 0, set()
    active = {}
    cur = {}  # sym -> (candle, events)
    ends = [e for e in r['trace'] if e['ev'] == 'minute-end']
    last_minute_end = ends[-1] if ends else None
    from vf.props.c02 import normalise
    norm = {s_: normalise(rows) for s_, rows in spec['candles'].items()}
    seen_minutes = {}
    for e in r['trace']:
        sym = e.get('sym')
        if e['ev'] == 'minute':
            i = seen_minutes.get(sym, 0)
            seen_minutes[sym] = i + 1
            o_, c_, h_, l_ = norm[sym][i]  # the path is judged on the INPUT minute (open := previous close, range widened to it)
            cur[sym] = ([e['candle'][0], o_, c_, h_, l_, e['candle'][5]], [], dict(active.get(sym, {})))
        elif e['ev'] == 'minute-end' and sym in cur:
            candle, evs, before = cur.pop(sym)
            v, st = judge_minute(candle, evs, before)
            if r['error'] is not None and e is last_minute_end:
                v = [x for x in v if 'left-unfilled' not in x[0] and 'not-filled-in-the-minute' not in x[0]]  # the run aborted inside this minute (order rejection): matching was cut short
            vios += v
            nfl = max(nfl, st['fills'])
            flags |= st['flags']
        if e['ev'] == 'submit' and e['type'] != 'MARKET':
            active.setdefault(sym, {})[e['ord']] = e['price']
        elif e['ev'] in ('cancel', 'executed') and e.get('before') == 'ACTIVE':
            active.get(sym, {}).pop(e['ord'], None)
        if sym in cur and e['ev'] in ('submit', 'cancel'):
            cur[sym][1].append(e)
        elif sym in cur and e['ev'] == 'execute':
            cur[sym][1].append(dict(ev='fill', ord=e['ord'], before=e['before']))
    return vios, nfl, flags, r


def replay(case):
    k = case.get('kind')
    if k == 'split':
        return split_checks(case['o'], case['h'], case['l'], case['c'], case['p'])
    if k == 'lattice':
        return lattice_case(case)[0]
    return session_minutes(case['spec'])[0]


def run_shard(acc, shard, nshards, seed, tier):
    from vf import runner
    from vf.gen import sessions
    known = runner.known_signatures('C08')
    # (a) split_candle, exhaustive on the half-tick lattice
    grid = [x * 0.5 for x in range(0, 11)]
    n = 0
    for idx, (o, h, l, c) in enumerate(itertools.product(grid, repeat=4)):
        if not (l <= min(o, c) and h >= max(o, c)) or idx % nshards != shard:
            continue
        for p in grid:
            if l <= p <= h:
                n += 1
                for sig, msg in split_checks(o, h, l, c, p):
                    acc.violation(sig, msg, dict(kind='split', o=o, h=h, l=l, c=c, p=p), size=1)
    acc.case(key=('split', shard), nontrivial=True, classes=['split_candle'], n=n, sub='split_candle-exhaustive',
             sample=dict(kind='split', lattice='{0,0.5,...,5}^4 shapes x split prices', cases_this_shard=n))
    acc.mark_exhaustive('split_candle-exhaustive', 'all valid (O,H,L,C) on {0,0.5,..,5} x all lattice split prices in [L,H]')
    # (b) in-minute ordering on the lattice
    stride = 37 if tier == 'quick' else 1
    cnt = 0
    for idx, case in enumerate(lattice_space()):
        if idx % nshards != shard or (idx // nshards) % stride != (seed % stride):
            continue
        vios, st = lattice_case(case)
        cnt += 1
        nt = bool(st['flags'])
        acc.case(key=('lat', idx), nontrivial=nt, classes=['lattice:' + case['family']] + ['lattice:' + f for f in st['flags']], sub='lattice-in-minute-ordering',
                 sample=dict(kind='lattice', **case) if (nt and cnt % 400 == 1) else None)
        for sig, msg in vios:
            acc.violation(sig, msg, dict(kind='lattice', **case), size=len(case['orders']) * 10 + (0 if case['react_off'] is None else 5) + (0 if case.get('close_react') is None else 7))
    if stride == 1:
        acc.mark_exhaustive('lattice-in-minute-ordering', 'all candle shapes on {100..104}^4 x 2-3 order prices on {99..105} x 3 families x reaction offsets {none,-2,-1,1,2}; plus 1-2 full-size exits with 1-2 re-entry orders placed by on_close_position at -2..+2')
    # (c) sessions, step simulator
    sess = sessions.session(minutes=(60, 160) if tier == 'quick' else (60, 300), fast=(False,), max_data=0, warmup=(False,), tfs=('1m', '3m', '5m'),
                            program=dict(busy=True))

    def chk(spec):
        vios, nfl, flags, r = session_minutes(spec)
        return dict(key=(spec['cfg'], spec['scripts'], spec['candles']), nontrivial=bool(flags), classes=['session'] + ['session:' + f for f in flags],
                    violations=vios, sub='sessions-step', sample=dict(cfg=spec['cfg'], routes=spec['routes'], minutes=spec['n'], max_fills_in_a_minute=nfl) if flags else None)
    runner.hyp_search(acc, sess, chk, 25 if tier == 'quick' else 1200, seed, tier, known=known, shrink_calls=20, max_shrink_sigs=1,
                      describe=lambda spec: dict(kind='session', spec=spec))
