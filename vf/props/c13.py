"""C13 - indicator series are causal: f(candles[:k])[i] == f(candles)[i] for i < k."""
import numpy as np

RULE = ("every public callable of jesse.indicators with a `sequential` parameter (discovered by introspection, ~168) is "
        "evaluated on Hypothesis-drawn candle series (kinds: walk, trend, downtrend, spikes, alternating, flatish, constant, "
        "monotone; length 60..600; PCG64 expansion of a drawn seed) with default parameters and with drawn non-default "
        "integer periods (2..60) and source types, on the full series and on 3 drawn prefix lengths (biased to just above "
        "the largest period and to 240/241). Every returned field of the prefix call must equal the prefix of the full "
        "call (NaN==NaN, rtol 1e-9, atol 1e-9 x input scale; strings/booleans exactly). All indicators are evaluated for "
        "every series and violations are bucketed by (indicator, field). distinct = (indicator, params, series, k); "
        "non-trivial = the compared prefix holds at least one finite value and the input after k differs from a "
        "continuation-free series (always true for non-constant kinds). Plus a deterministic sweep: every value of every `*matype` "
        "parameter (and, thorough tier, every source type), one at a time, on flat-middle / leading-zero-volume / lattice series.")
ASSUMPTIONS = [
    "a prefix call that raises for a too-short input is skipped for that k and counted, not failed",
    "minmax may differ in the last `order` positions of the prefix (documented confirmation delay)",
    "fields whose sequential length differs from the input length are compared left-aligned (the length itself is C14's business)",
    "positions where both the prefix and the full series are non-finite (NaN or +-inf from 0/0, x/0 on degenerate inputs such as zero volume) count as equal",
    "parameter perturbation is limited to integer period-like parameters (2..60) and source_type",
]
TECHNIQUE = "metamorphic prefix relation over generated series and parameters, all indicators collected per series, bucketed by (indicator, field)"
MIN_NONTRIVIAL = {'quick': 1500, 'thorough': 30000}

KINDS = ['walk', 'trend', 'downtrend', 'spikes', 'alternating', 'flatish', 'walk', 'spikes', 'constant', 'monotone', 'lattice', 'leading-zero-volume', 'lattice', 'gappy', 'flat-middle', 'flat-middle']


def _num_like(x):
    return isinstance(x, (int, float)) and not isinstance(x, bool)


def _same(x, y, scale):
    if isinstance(x, (int, float)) and isinstance(y, (int, float)) and not isinstance(x, bool) and not isinstance(y, bool):
        if not np.isfinite(x) and not np.isfinite(y):
            return True  # both undefined (0/0 vs x/0 on degenerate inputs): nothing to compare
        return bool(np.isclose(float(x), float(y), rtol=1e-9, atol=1e-9 * scale, equal_nan=True))
    return x == y or (x != x and y != y)


def compare_prefix(name, full, pre, k, scale, order_exempt=0):
    """Returns list of (field, message, n_bad)."""
    bad = []
    # categorical fields (strings / booleans derived from comparing numbers) are only compared where every numeric field of the
    # indicator is bit-identical between the two calls: a tie decided by rounding noise may fall either way
    ident = None
    for fld, fv in full.items():
        a, p = np.asarray(fv), np.asarray(pre.get(fld))
        if a.ndim == 0 or p.ndim == 0:
            continue
        m = min(len(p), len(a))
        try:
            if a.dtype.kind in 'fiu' and p.dtype.kind in 'fiu':
                same = (a[:m].astype(float) == p[:m].astype(float)) | (np.isnan(a[:m].astype(float)) & np.isnan(p[:m].astype(float)))
            elif a.dtype.kind == 'O':
                same = np.array([(not isinstance(x, float)) or x == y or (x != x and y != y) for x, y in zip(a[:m].tolist(), p[:m].tolist())], dtype=bool)
            else:
                continue
        except Exception:  # noqa
            continue
        ident = same if ident is None or len(ident) != len(same) else (ident & same)
    for fld, fv in full.items():
        a, p = np.asarray(fv), np.asarray(pre.get(fld))
        if a.ndim == 0 or p.ndim == 0:
            bad.append((fld, f'field {fld} is not a series with sequential=True ({a.shape} / {p.shape})', 1))
            continue
        m = min(len(p), len(a))
        a2, p2 = a[:m], p[:m]
        if order_exempt:
            a2, p2 = a2[:max(0, k - order_exempt)], p2[:max(0, k - order_exempt)]
        if a2.dtype.kind in 'fiu' and p2.dtype.kind in 'fiu':
            af, pf = a2.astype(float), p2.astype(float)
            ok = np.isclose(af, pf, rtol=1e-9, atol=1e-9 * scale, equal_nan=True) | (~np.isfinite(af) & ~np.isfinite(pf))
        else:
            ok = np.array([_same(x, y, scale) for x, y in zip(a2.tolist(), p2.tolist())], dtype=bool)
            if ident is not None and len(ident) >= len(ok):
                cat = np.array([not _num_like(x) for x in a2.tolist()], dtype=bool)
                ok = ok | (cat & ~ident[:len(ok)])
        if not ok.all():
            i = int(np.argmin(ok))
            tag = ''
            if a2.dtype.kind in 'fiu' and p2.dtype.kind in 'fiu':
                badm = ~ok
                if (~np.isfinite(af[badm])).all() and np.isfinite(pf[badm]).all():
                    tag = ':a-later-non-finite-value-poisons-earlier-ones'  # e.g. log(0) of a later zero-volume candle inside a matrix product
            bad.append((fld + tag, f'{name}.{fld}: index {i} of the series is {p2[i]!r} on the first {k} candles but {a2[i]!r} on all {len(a)} candles '
                             f'({int((~ok).sum())} of {m} positions differ)', int((~ok).sum())))
    return bad


def eval_case(case, only=None):
    """case: dict(kind, n, seed, ks, params: 'default'|dict name->kwargs). Returns (violations, stats)."""
    from vf.gen import indicators as gi
    ind = gi.discover()
    c = gi.make_candles(case['kind'], case['n'], case['seed'], case.get('scale', 100.0))
    c2 = gi.make_candles('walk', case['n'], case['seed'] + 1, case.get('scale', 100.0))
    scale = float(max(np.abs(c[:, 1:5]).max(), np.abs(c[:, 5]).max()))
    vios, stats = [], dict(evals=0, skipped=0, nontrivial=0, called=0)
    ks = list(case['ks'])
    if case['kind'] == 'leading-zero-volume':
        # also cut inside / right at the end of the zero-volume stretch (a prefix made of gap-filled candles only)
        stretch = int(np.argmax(c[:, 5] > 0))
        ks += [k for k in (stretch, stretch - 1) if k >= min(case['ks'] + [100]) and k not in ks]
    if case['kind'] == 'flat-middle':
        flat = np.flatnonzero((c[:, 3] == c[:, 4]) & (c[:, 5] == 0))
        if len(flat):
            ks += [k for k in (int(flat[0]), int(flat[0]) + 5, int(flat[-1]) + 1) if k >= min(case['ks'] + [100]) and k < case['n'] and k not in ks]
    case = dict(case, ks=sorted(ks))
    for name, (f, sig) in ind.items():
        if only and name not in only:
            continue
        kw = case['params'].get(name, {}) if isinstance(case['params'], dict) else {}
        try:
            full = gi.fields(gi.call(name, f, sig, c, True, kw, c2))
        except Exception:  # noqa  - invalid parameter combination / short input: not this property's business
            stats['skipped'] += 1
            continue
        stats['called'] += 1
        for k in case['ks']:
            if k >= case['n']:
                continue
            try:
                pre = gi.fields(gi.call(name, f, sig, c[:k], True, kw, c2[:k]))
            except Exception:  # noqa
                stats['skipped'] += 1
                continue
            stats['evals'] += 1
            order = kw.get('order', gi.default_kwargs(sig).get('order', 3)) if name == 'minmax' else 0
            finite = any(np.asarray(v).dtype.kind not in 'fiu' or np.isfinite(np.asarray(v, dtype=float)[:k]).any() for v in pre.values() if np.asarray(v).ndim)
            if finite and case['kind'] != 'constant':
                stats['nontrivial'] += 1
            for fld, msg, nbad in compare_prefix(name, full, pre, k, scale, order):
                vios.append((f'C13:indicator={name}:field={fld}', msg + f' [kind={case["kind"]} n={case["n"]} seed={case["seed"]} params={kw or "defaults"}]',
                             dict(case, ks=[k], only=[name], params={name: kw} if kw else 'default')))
    return vios, stats


def replay(case):
    vios, _ = eval_case(case, only=case.get('only'))
    return [(s, m) for s, m, _ in vios]


def run_shard(acc, shard, nshards, seed, tier):
    from hypothesis import strategies as st, given, settings, HealthCheck, Phase
    import hypothesis
    from vf.gen import indicators as gi
    import inspect
    ind = gi.discover()
    nseries = 3 if tier == 'quick' else 40

    @st.composite
    def cases(draw):
        kind = draw(st.sampled_from(KINDS))
        n = draw(st.sampled_from([130, 150, 241, 300, 400, 600, 130, 150, 241, 300, 400, 600, 2049, 4097]))  # long inputs (length-dependent scaling shows beyond ~1000 candles), just above a power of two (block / FFT sizes)
        default = draw(st.sampled_from([True, False, False]))
        # prefix lengths first: compiled kernels do no bounds checking, so every period must fit the shortest prefix
        kmin = 100 if n > 100 else n - 10
        ks = sorted({draw(st.integers(kmin, n - 1)), draw(st.sampled_from([k for k in (120, 239, 240, 241, n - 1, n - 2) if kmin <= k < n] or [n - 1])),
                     draw(st.integers(max(kmin, n // 2), n - 1))})
        params = 'default'
        if not default:
            params = {}
            pmax = max(2, min(60, min(ks) // 4))
            for name, (f, sig) in ind.items():
                kw = gi.perturb_kwargs(sig, lambda a, b: draw(st.integers(a, min(b, pmax))), lambda xs: draw(st.sampled_from(xs)))
                params[name] = kw
        return dict(kind=kind, n=n, seed=draw(st.integers(0, 2 ** 31)), ks=ks, params=params,
                    scale=draw(st.sampled_from([100.0, 100.0, 1e-3, 25000.0])))

    @hypothesis.seed(seed)
    @settings(max_examples=nseries, phases=[Phase.generate], database=None, deadline=None, suppress_health_check=list(HealthCheck), derandomize=False)
    @given(cases())
    def run(case):
        vios, stats = eval_case(case)
        acc.evaluations += stats['evals']
        acc.exclude('prefix or full call raised (short input / invalid parameter combination)', stats['skipped'])
        d = acc.sub.setdefault('prefix-comparisons', {'evaluations': 0})
        d['evaluations'] += stats['evals']
        for i in range(stats['nontrivial']):
            acc.nontrivial.add(f"{case['kind']}|{case['n']}|{case['seed']}|{i}|{shard}")
        acc.classes['series:' + case['kind']] += 1
        acc.classes['params:' + ('default' if case['params'] == 'default' else 'perturbed')] += 1
        acc.classes['indicators-called'] += stats['called']
        if len(acc.samples) < 2:
            acc.samples.append(dict(kind=case['kind'], n=case['n'], seed=case['seed'], prefix_lengths=case['ks'], scale=case['scale'],
                                    params=case['params'] if case['params'] == 'default' else {k: v for k, v in list(case['params'].items())[:4]},
                                    indicators=stats['called']))
        for sig, msg, small in vios:
            acc.violation(sig, msg, small, size=small['n'] * 1000 + (0 if small['params'] == 'default' else 500))

    run()

    # categorical parameters, one at a time, every value: each `*matype` of every indicator that has one (the smoothing a
    # composite indicator delegates to) and every source type, on the structured series whose shape the smoothers react to
    # (a flat stretch in the middle, a zero-volume lead-in, ties on a price grid). Deterministic in VERIF_SEED; sharded by indicator.
    sweep_kinds = ['flat-middle', 'leading-zero-volume', 'lattice'] if tier == 'quick' else ['flat-middle', 'leading-zero-volume', 'lattice', 'walk', 'gappy', 'flatish']
    mts = sorted(set(gi.MATYPES))
    for idx, (name, (f, sig)) in enumerate(sorted(ind.items())):
        if idx % nshards != shard:
            continue
        cats = []
        for k, v in sig.parameters.items():
            if k.endswith('matype') and isinstance(v.default, int) and not isinstance(v.default, bool):
                cats += [(k, m) for m in mts if m != v.default]
            elif k == 'source_type' and tier != 'quick':
                cats += [(k, t) for t in gi.SOURCE_TYPES if t != v.default]
        for j, (pk, pv) in enumerate(cats):
            for kind in sweep_kinds:
                n = 300
                case = dict(kind=kind, n=n, seed=(seed * 7919 + idx * 131 + j) % (2 ** 31), ks=[150, 240, n - 1], params={name: {pk: pv}}, scale=100.0)
                vios, stats = eval_case(case, only=[name])
                acc.evaluations += stats['evals']
                acc.exclude('prefix or full call raised (short input / invalid parameter combination)', stats['skipped'])
                d = acc.sub.setdefault('categorical-parameter-sweep', {'evaluations': 0})
                d['evaluations'] += stats['evals']
                for i in range(stats['nontrivial']):
                    acc.nontrivial.add(f"sweep|{name}|{pk}|{pv}|{kind}|{i}")
                acc.classes['sweep:' + ('matype' if pk.endswith('matype') else pk)] += 1
                for sg, msg, small in vios:
                    acc.violation(sg, msg, small, size=small['n'] * 1000 + 500)
