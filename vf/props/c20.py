"""C20 - candle series handed to the store are gapless and strictly ordered."""
import itertools

RULE = ("(a) _fill_absent_candles on intervals of 1..300 minutes with generated presence masks (all 2^L-1 non-empty masks "
        "exhaustively for L<=9, Hypothesis masks beyond, forced patterns: missing at start / middle / end / all but one) "
        "and distinct OHLCV per provided candle, given in ascending order, some minutes delivered twice (then either copy may be kept); (b) op-sequence model test of the candle store "
        "(add_candle for 1m and a 5m timeframe, batch_add_candle, add_multiple_1m_candles) against a dict model keyed by "
        "timestamp: ops are new / repeated-last / older-known (any stored position) / older-unknown; (c) research.backtest "
        "called with first-two-candle spacings != 60000 ms (on the first or the second route) must raise ValueError and "
        "with 60000 must not; the badly spaced series may also belong to a symbol that is only observed through a data route. distinct = digest of the mask / op list / spacing; non-trivial = mask has both present and "
        "missing minutes, history replaces a non-last row, or spacing != 60000.")
ASSUMPTIONS = [
    "provided candles are passed in ascending timestamp order and lie inside the requested interval (every caller passes chronological exchange batches)",
    "an add of an older, unknown timestamp may raise; it must not reorder, duplicate or drop stored rows",
    "store operations are driven in backtest mode (add_multiple_1m_candles refuses other modes)",
]
TECHNIQUE = "exhaustive small masks + Hypothesis masks against a reference filler; model-based op sequences on CandlesState against a timestamp-keyed dict"
MIN_NONTRIVIAL = {'quick': 800, 'thorough': 8000}
MIN = 60_000


def fill_case(L, present, start):
    """present: sorted list of minute offsets that are provided."""
    from jesse.modes.import_candles_mode import _fill_absent_candles
    from jesse.exceptions import CandleNotFoundInExchange
    vios = []
    prov = []
    for j, k in enumerate(present):
        base = 100.0 + k + (0.01 * j if present.count(k) > 1 else 0.0)  # a minute delivered twice: two different candles
        prov.append(dict(id=f'id{k}_{j}' if present.count(k) > 1 else f'id{k}', exchange='VfEx', symbol='BTC-USDT', timeframe='1m', timestamp=start + k * MIN,
                         open=base + 0.1, close=base + 0.2, high=base + 0.7, low=base - 0.3, volume=10.0 + k))
    snapshot = [dict(c) for c in prov]
    end = start + (L - 1) * MIN
    try:
        out = _fill_absent_candles(prov, start, end)
    except CandleNotFoundInExchange:
        if present:
            vios.append(('C20:fill:raised-on-nonempty-input', f'L={L} present={present}'))
        return vios
    except Exception as e:  # noqa
        return [(f'C20:fill:raised-{type(e).__name__}', f'L={L} present={present}: {e!r}')]
    if not present:
        return [('C20:fill:empty-input-not-rejected', f'L={L}')]
    if prov != snapshot:
        vios.append(('C20:fill:input-mutated', f'L={L} present={present}'))
    if len(out) != L:
        vios.append(('C20:fill:length', f'got {len(out)} candles for {L} minutes, present={present}'))
        return vios
    pset = set(present)
    first_open = snapshot[0]['open']
    prev_close = None
    for i, c in enumerate(out):
        ts = start + i * MIN
        if c['timestamp'] != ts:
            vios.append(('C20:fill:timestamp-order', f'row {i} has ts offset {(c["timestamp"] - start) / MIN}, present={present}'))
            break
        if i in pset:
            wants = [snapshot[j] for j, k in enumerate(present) if k == i]  # several if the minute was delivered more than once
            if not any({k: c.get(k) for k in want} == want for want in wants):
                vios.append(('C20:fill:provided-candle-changed' + (':duplicate-minute' if len(wants) > 1 else ''), f'minute {i}: {c} vs {wants}'))
        else:
            ref = prev_close if prev_close is not None and any(p < i for p in present) else first_open
            kind = 'after-known' if any(p < i for p in present) else 'before-first'
            if not (c['open'] == c['close'] == c['high'] == c['low'] == ref and c['volume'] == 0):
                vios.append((f'C20:fill:missing-minute-not-flat-at-reference:{kind}', f'minute {i}: {c}, expected flat at {ref} volume 0; present={present}'))
            for k in ('exchange', 'symbol'):
                if c.get(k) != snapshot[0][k]:
                    vios.append(('C20:fill:missing-minute-metadata', f'minute {i}: {c}'))
        prev_close = c['close']
    return vios


# ---------------------------------------------------------------------------------------------
class StoreModel:
    """Reference: strictly ordered dict ts -> row, per timeframe."""

    def __init__(self):
        self.rows = {}

    def ordered(self, tf):
        return [self.rows[tf][k] for k in sorted(self.rows.get(tf, {}))]


def store_case(ops):
    """ops: list of [kind, tf, args...]; returns (violations, flags)."""
    import numpy as np
    from vf.drive.bench import Bench, EX, T0
    from jesse.strategies import Strategy

    class S(Strategy):
        def should_long(self):
            return False

        def go_long(self):
            pass

    b = Bench('futures', 0.0, 10000.0, timeframe='5m', strategy_cls=S)
    b.close()
    store = b.store
    sym = 'BTC-USDT'
    # Bench stored one 1m candle at T0; start the model from the real content
    model = {'1m': {}, '5m': {}}
    for tf in ('1m', '5m'):
        for r in store.candles.get_storage(EX, sym, tf)[:]:
            model[tf][float(r[0])] = [float(x) for x in r]
    step = {'1m': MIN, '5m': 5 * MIN}
    counter = [0]
    vios, flags = [], set()

    def mk(ts):
        counter[0] += 1
        v = 50.0 + counter[0]
        return [float(ts), v, v + 0.5, v + 1.0, v - 1.0, float(counter[0])]

    def check(tf, what):
        got = [[float(x) for x in r] for r in store.candles.get_storage(EX, sym, tf)[:]]
        want = [model[tf][k] for k in sorted(model[tf])]
        ts = [r[0] for r in got]
        if any(b2 <= a for a, b2 in zip(ts, ts[1:])):
            vios.append((f'C20:store:{what}:timestamps-not-strictly-increasing', f'{tf}: {ts[-6:]}'))
        elif got != want:
            vios.append((f'C20:store:{what}:content-differs-from-model', f'{tf}: stored {len(got)} rows, model {len(want)}; tail stored {got[-3:]} model {want[-3:]}'))

    for op in ops:
        kind, tf = op[0], op[1]
        keys = sorted(model[tf])
        last = keys[-1] if keys else T0 - step[tf]
        try:
            if kind == 'new':
                ts = last + step[tf] * op[2]
                c = mk(ts)
                store.candles.add_candle(np.array(c), EX, sym, tf, with_execution=False, with_generation=False)
                model[tf][ts] = c
                what = 'new'
            elif kind == 'repeat-last':
                if not keys:
                    continue
                c = mk(last)
                store.candles.add_candle(np.array(c), EX, sym, tf, with_execution=False, with_generation=False)
                model[tf][last] = c
                what = 'repeated-last'
            elif kind == 'older-known':
                if len(keys) < 2:
                    continue
                j = op[2] % (len(keys) - 1)  # a stored position that is not the last one
                ts = keys[j]
                back = len(keys) - 1 - j
                c = mk(ts)
                flags.add('replace-non-last')
                if back >= 20:
                    flags.add('replace-20+-back')
                what = 'older-known'
                store.candles.add_candle(np.array(c), EX, sym, tf, with_execution=False, with_generation=False)
                model[tf][ts] = c
            elif kind == 'older-unknown':
                if not keys:
                    continue
                ts = keys[0] - step[tf] * op[2] if op[3] else keys[max(0, len(keys) - 1 - op[2])] - MIN // 2
                if ts in model[tf] or ts >= last:
                    continue
                what = 'older-unknown'
                try:
                    store.candles.add_candle(np.array(mk(ts)), EX, sym, tf, with_execution=False, with_generation=False)
                except Exception:  # noqa  tolerated: must only leave the storage untouched
                    flags.add('older-unknown-raised')
                flags.add('older-unknown')
            elif kind == 'batch-new':
                n = op[2]
                rows = [mk(last + MIN * (i + 1)) for i in range(n)]
                what = 'batch-new'
                if op[3]:
                    store.candles.add_multiple_1m_candles(np.array(rows), EX, sym)
                else:
                    store.candles.batch_add_candle(np.array(rows), EX, sym, '1m', with_generation=False)
                for r in rows:
                    model['1m'][r[0]] = r
                tf = '1m'
            elif kind == 'batch-mixed':
                # one batch through batch_add_candle: new minutes, one of them delivered twice inside the batch (a forming candle
                # followed by its final version) or followed by an older minute of the same batch
                n = op[2]
                ts_list = [last + MIN * (i + 1) for i in range(n)]
                j = op[3] % n
                ts_list = ts_list[:j + 1] + [ts_list[max(0, j - (op[4] % 2))]] + ts_list[j + 1:]
                rows = [mk(t) for t in ts_list]
                what = 'batch-mixed'
                store.candles.batch_add_candle(np.array(rows), EX, sym, '1m', with_generation=False)
                for r in rows:
                    model['1m'][r[0]] = r
                flags.add('batch-with-a-repeated-minute')
                tf = '1m'
            elif kind == 'batch-repeat':
                n = min(op[2], len(model['1m']))
                if n == 0:
                    continue
                k1 = sorted(model['1m'])[-n:]
                rows = [mk(t) for t in k1]
                what = 'batch-repeat'
                if op[3]:
                    store.candles.add_multiple_1m_candles(np.array(rows), EX, sym)
                else:
                    store.candles.batch_add_candle(np.array(rows), EX, sym, '1m', with_generation=False)
                for r in rows:
                    model['1m'][r[0]] = r
                flags.add('batch-repeat')
                tf = '1m'
            elif kind == 'batch-overlap':
                n_old = min(op[2], len(model['1m']))
                if n_old == 0:
                    continue
                k1 = sorted(model['1m'])[-n_old:]
                rows = [mk(t) for t in k1] + [mk(k1[-1] + MIN * (i + 1)) for i in range(op[3])]
                what = 'batch-overlap'
                store.candles.add_multiple_1m_candles(np.array(rows), EX, sym)
                for r in rows:
                    model['1m'][r[0]] = r
                flags.add('batch-overlap')
                tf = '1m'
            else:
                raise ValueError(kind)
        except Exception as e:  # noqa
            vios.append((f'C20:store:{what}:raised-{type(e).__name__}', f'{op}: {e!r} with {len(keys)} rows stored'))
            break
        check(tf, what)
        if vios:
            break
    return vios, flags


def spacing_case(spacing_ms, which_route, fast, only_first=False, warm=False):
    from vf.drive import session
    from vf.gen import candles as gc
    rows = {s: gc.prng_rows(3 + i, 30, 0.5, 400) for i, s in enumerate(['BTC-USDT', 'ETH-USDT'])}
    data = []
    if which_route == 2:
        # a symbol that is only observed through a data route: its candles are handed to the store like the others
        rows['LTC-USDT'] = gc.prng_rows(7, 30, 0.5, 400)
        data = [dict(symbol='LTC-USDT', timeframe='5m')]
    bad = ['BTC-USDT', 'ETH-USDT', 'LTC-USDT'][which_route]
    if spacing_ms != MIN and only_first:
        rows[bad][0][0] = rows[bad][1][0] - spacing_ms  # only the first two candles are badly spaced; the rest is minute by minute
    elif spacing_ms != MIN:
        for i, r in enumerate(rows[bad]):
            r[0] = rows[bad][0][0] + i * spacing_ms if i else r[0]
    script = dict(rows=[{'act': 'none'}], tick=0.5, unit=0.1)
    warmup = None
    if warm:
        # properly spaced warm-up candles for every symbol: they must not stand in for the trading candles in the validation
        warmup = {s_: gc.warmup_rows(11 + i, 10, 0.5, round(rows[s_][0][1] / 0.5), t0=rows[s_][0][0]) for i, s_ in enumerate(rows)}
    spec = dict(cfg=dict(type='futures', fee=0.0, balance=10000.0, leverage=2, mode='cross', warm_up=10 if warm else 0),
                routes=[dict(symbol=s, timeframe='1m') for s in rows if s != 'LTC-USDT'], data=data, candles=rows, warmup=warmup,
                scripts={s: script for s in rows if s != 'LTC-USDT'}, fast=fast)
    r = session.run(spec, obs='off')
    err = r['error']['type'] if r['error'] else None
    if spacing_ms != MIN and err != 'ValueError':
        return [('C20:backtest:bad-spacing-accepted' + ('' if spacing_ms > MIN else ':below-one-minute') + {0: '', 1: ':second-route', 2: ':data-only-symbol'}[which_route] + (':with-warm-up' if warm else ''),
                 f'research.backtest accepted candles whose first two timestamps are {spacing_ms} ms apart on {bad} (error={err})')]
    if spacing_ms == MIN and err is not None:
        return [(f'C20:backtest:valid-spacing-raised-{err}', str(r['error']['msg'])[:300])]
    return []


def replay(case):
    k = case['kind']
    if k == 'fill':
        from vf.drive.bench import T0
        return fill_case(case['L'], case['present'], T0)
    if k == 'store':
        return store_case(case['ops'])[0]
    if k == 'spacing':
        return spacing_case(case['spacing_ms'], case['which_route'], case['fast'], case.get('only_first', False), case.get('warm', False))
    raise ValueError(k)


def run_shard(acc, shard, nshards, seed, tier):
    from hypothesis import strategies as st
    from vf import runner
    from vf.drive.bench import T0
    known = runner.known_signatures('C20')
    maxL = 9 if tier == 'quick' else 12
    cnt = 0
    for L in range(1, maxL + 1):
        for idx, bits in enumerate(itertools.product((0, 1), repeat=L)):
            if idx % nshards != shard:
                continue
            present = [i for i, b in enumerate(bits) if b]
            cnt += 1
            vios = fill_case(L, present, T0)
            nt = 0 < len(present) < L
            acc.case(key=('mask', L, present), nontrivial=nt, classes=['fill:exhaustive'], sub=f'fill-exhaustive-L<={maxL}',
                     sample=dict(kind='fill', L=L, present=present) if idx % 97 == 5 else None)
            for sig, msg in vios:
                acc.violation(sig, msg, dict(kind='fill', L=L, present=present), size=L)
    acc.mark_exhaustive(f'fill-exhaustive-L<={maxL}', f'all 2^L presence masks for L=1..{maxL} (this shard 1/{nshards})')

    @st.composite
    def masks(draw):
        L = draw(st.integers(1, 300))
        style = draw(st.sampled_from(['random', 'start', 'middle', 'end', 'one', 'sparse', 'dup', 'dup-full']))
        if style == 'random':
            present = sorted(set(draw(st.lists(st.integers(0, L - 1), min_size=1, max_size=L))))
        elif style == 'one':
            present = [draw(st.integers(0, L - 1))]
        elif style in ('dup', 'dup-full'):
            # some minutes delivered twice (exchanges do that at batch seams); 'dup-full': as many entries as minutes, first and
            # last minute present, one minute twice and another absent
            if style == 'dup-full' and L >= 3:
                twice = draw(st.integers(0, L - 1))
                absent = draw(st.integers(1, L - 2).filter(lambda x: x != twice)) if L > 3 or twice != 1 else None
                present = sorted([i for i in range(L) if i != absent] + [twice])
            else:
                base = sorted(set(draw(st.lists(st.integers(0, L - 1), min_size=1, max_size=min(L, 12)))))
                present = sorted(base + draw(st.lists(st.sampled_from(base), min_size=1, max_size=3)))
        elif style == 'sparse':
            present = sorted(set(draw(st.lists(st.integers(0, L - 1), min_size=1, max_size=5))))
        else:
            a = draw(st.integers(0, L - 1))
            b = draw(st.integers(a, L - 1))
            missing = set(range(0, b + 1)) if style == 'start' else (set(range(a, L)) if style == 'end' else set(range(a, b + 1)))
            present = [i for i in range(L) if i not in missing] or [L - 1 if style == 'start' else 0]
        return dict(kind='fill', L=L, present=present, style=style)

    def chk_fill(c):
        vios = fill_case(c['L'], c['present'], T0)
        return dict(key=c, nontrivial=0 < len(set(c['present'])) < c['L'] or len(set(c['present'])) < len(c['present']), classes=['fill:' + c['style']],
                    sample=c if c['L'] < 15 else None, violations=vios, sub='fill-hypothesis')
    runner.hyp_search(acc, masks(), chk_fill, 150 if tier == 'quick' else 3000, seed, tier, known=known)

    tfs = st.sampled_from(['1m', '1m', '5m'])
    op = st.one_of(
        st.tuples(st.just('new'), tfs, st.sampled_from([1, 1, 1, 2])),
        st.tuples(st.just('new'), tfs, st.just(1)),
        st.tuples(st.just('repeat-last'), tfs),
        st.tuples(st.just('older-known'), tfs, st.integers(0, 200)),
        st.tuples(st.just('older-unknown'), tfs, st.integers(1, 30), st.booleans()),
        st.tuples(st.just('batch-new'), st.just('1m'), st.integers(1, 40), st.booleans()),
        st.tuples(st.just('batch-repeat'), st.just('1m'), st.integers(1, 8), st.booleans()),
        st.tuples(st.just('batch-overlap'), st.just('1m'), st.integers(1, 6), st.integers(1, 6)),
        st.tuples(st.just('batch-mixed'), st.just('1m'), st.integers(2, 8), st.integers(0, 7), st.integers(0, 1)),
    ).map(list)

    def chk_store(ops):
        vios, flags = store_case(ops)
        return dict(key=ops, nontrivial='replace-non-last' in flags, classes=['store:' + f for f in flags],
                    sample=dict(kind='store', ops=ops) if len(ops) < 10 else None, violations=vios, sub='store-op-sequences')
    runner.hyp_search(acc, st.lists(op, min_size=1, max_size=40 if tier == 'quick' else 120), chk_store,
                      150 if tier == 'quick' else 2500, seed + 1, tier, known=known,
                      describe=lambda ops: dict(kind='store', ops=ops))

    spacings = [MIN, 0, 1, 30_000, 59_999, 60_001, 120_000, 300_000, -60_000, 3_600_000]
    combos = [(s, w, f, o, wm) for s in spacings for w in (0, 1, 2) for f in (False, True) for o in (False, True) for wm in (False, True)]
    for i, (s, w, f, o, wm) in enumerate(combos):
        if i % nshards != shard:
            continue
        vios = spacing_case(s, w, f, o, wm)
        acc.case(key=('spacing', s, w, f, o, wm), nontrivial=s != MIN, classes=['spacing' + (':with-warm-up' if wm else '')], sub='backtest-spacing',
                 sample=dict(kind='spacing', spacing_ms=s, which_route=w, fast=f, only_first=o, warm=wm) if i % 7 == 0 else None)
        for sig, msg in vios:
            acc.violation(sig, msg, dict(kind='spacing', spacing_ms=s, which_route=w, fast=f, only_first=o, warm=wm))
    acc.mark_exhaustive('backtest-spacing', f'{len(spacings)} spacings x first route / second route / data-only symbol x both simulators x (all candles / only the leading pair badly spaced) x (no warm-up / well-spaced warm-up candles passed)')
