"""C06 - position events and the trade log are a faithful record of the fills."""
from decimal import Decimal

RULE = ("Hypothesis-generated sessions (futures and spot, both simulators, 1-2 routes; programs with multi-point entries, partial "
        "take-profit ladders, FULL-size stops that fill after partial take-profits (oversize reduce-only), stops moved in "
        "on_reduced_position, position increases, liquidate(), positions left open at the session end; a futures-only family with "
        "position flips through direct broker market orders). Per symbol the executed orders of the trace are folded through a "
        "cycle automaton (flat -> open -> {increase, reduce}* -> close; sizes in exact decimal arithmetic of the shortest reprs): "
        "(i) the position hooks observed between the begin and the end of each fill must be exactly the automaton's event(s), "
        "with position.qty inside the hook equal to the automaton's size; (ii) the closed trades of the symbol must be the "
        "automaton's completed cycles, in order, with type, qty (sum of entry fills), quantity-weighted entry/exit prices (each "
        "exit fill at the quantity it actually removed), opened_at/closed_at and the order list of that cycle; (iii) futures: "
        "sum of trade PnL == final wallet - starting balance, metrics net_profit == that sum and finishing_balance == wallet. "
        "distinct = digest of (candles, scripts, config); non-trivial = the run has a trade with >= 3 fills, or a partial exit, "
        "or a forced close at the end.")
ASSUMPTIONS = [
    "prices / PnL compared at 1e-9 relative (1e-7 of the starting balance for the wallet identity); sizes exactly: every step is the decimal sum of the shortest reprs, converted back to a double (the arithmetic C17 pins down for sum_floats / subtract_floats)",
    "spot: a buy fill adds qty x (1 - fee) of base (C04); the trade's qty is the gross bought quantity",
    "a run that aborts (order rejection) is judged on hooks only, up to the abort",
    "reduce-only orders that would increase a position are not generated",
]
TECHNIQUE = "trace fold through a reference cycle automaton; differential check of the trade log and wallet identity over generated sessions"
MIN_NONTRIVIAL = {'quick': 60, 'thorough': 3000}
HOOKS = {'on_open_position': 'open', 'on_increased_position': 'increase', 'on_reduced_position': 'reduce', 'on_close_position': 'close'}


def D(x):
    return Decimal(repr(float(x)))


def rel_close(a, b, tol=1e-9):
    return abs(a - b) <= tol * max(1.0, abs(a), abs(b))


def check_run(spec, r):
    vios, stats = [], dict(classes=set(), fills=0)
    kind = spec['cfg']['type']
    fee = spec['cfg']['fee']
    sim = 'fast' if spec.get('fast') else 'step'
    sub = {e['ord']: e for e in r['trace'] if e['ev'] == 'submit'}
    size = {}          # symbol -> Decimal
    cycles = {}        # symbol -> list of completed cycles
    cur = {}           # symbol -> open cycle dict
    tr = r['trace']
    i = 0
    while i < len(tr):
        e = tr[i]
        if e['ev'] != 'execute' or e['before'] != 'ACTIVE':
            i += 1
            continue
        # find the matching end event
        j = i + 1
        depth = 0
        while j < len(tr) and not (tr[j]['ev'] == 'executed' and tr[j]['ord'] == e['ord']):
            j += 1
        if j >= len(tr):
            break
        end = tr[j]
        if end['after'] != 'EXECUTED':
            i = j + 1
            continue
        o = sub[e['ord']]
        sym = o['sym']
        stats['fills'] += 1
        # the time of a fill is the end of the one-minute candle that was being matched (read from the store when execute() was entered)
        if e.get('minute_ts') is not None and o['type'] != 'MARKET' and end['executed_at'] != e['minute_ts'] + 60_000:
            vios.append((f'C06:sim={sim}:fill-time-differs-from-minute-being-matched', f"order {e['ord']} ({sym}): executed_at {end['executed_at']}, minute being matched started at {e['minute_ts']}"))
            end = dict(end, executed_at=e['minute_ts'] + 60_000)
        q = D(o['qty'])
        pos = size.get(sym, Decimal(0))
        ro = o['reduce_only']
        if kind == 'spot' and q > 0:
            add = D(float(o['qty']) * (1 - fee))
        else:
            add = q
        removed = None
        if pos == 0:
            expect = ['open']
            new = add
            cur[sym] = dict(type='long' if q > 0 else 'short', entries=[(abs(float(o['qty'])), o['price'])], exits=[], orders=[o['ord']],
                            opened_at=end['executed_at'], fills=1)
        elif (pos > 0) == (q > 0):
            if ro:
                stats['classes'].add('reduce-only-order-on-the-position-side')
                expect, new = None, pos
            else:
                expect, new = ['increase'], D(float(pos + add))
                cur[sym]['entries'].append((abs(float(o['qty'])), o['price']))
                cur[sym]['orders'].append(o['ord'])
                cur[sym]['fills'] += 1
                stats['classes'].add('increase')
        else:
            cyc = cur.get(sym)
            if abs(q) < abs(pos):
                expect, new = ['reduce'], D(float(pos + q))
                removed = abs(q)
                stats['classes'].add('partial-exit')
            elif abs(q) == abs(pos):
                expect, new = ['close'], Decimal(0)
                removed = abs(q)
            elif ro or kind == 'spot':
                expect, new = ['close'], Decimal(0)
                removed = abs(pos)
                stats['classes'].add('oversize-reduce-only-exit')
            else:
                expect, new = ['close', 'open'], D(float(pos + q))
                removed = abs(pos)
                stats['classes'].add('flip')
            if cyc is not None:
                cyc['exits'].append((float(removed), o['price']))
                cyc['orders'].append(o['ord'])
                cyc['fills'] += 1
                if expect[0] == 'close':
                    cyc['closed_at'] = end['executed_at']
                    cycles.setdefault(sym, []).append(cyc)
                    cur.pop(sym)
                    if len(expect) == 2:
                        cur[sym] = dict(type='long' if new > 0 else 'short', entries=[(abs(float(new)), o['price'])], exits=[], orders=[o['ord']],
                                        opened_at=end['executed_at'], fills=1)
        size[sym] = new
        flip_tag = ':flip' if expect and len(expect) == 2 else ''
        if expect is not None:
            got = [(h['name'], h) for h in tr[i:j] if h['ev'] == 'hook' and h['name'] in HOOKS and h['sym'] == sym and h.get('ord') == e['ord']]
            names = [HOOKS[n] for n, _ in got]
            if names != expect:
                vios.append((f'C06:sim={sim}:hooks{flip_tag}:expected-{"+".join(expect)}:got-{"+".join(names) or "none"}',
                             f"fill of order {e['ord']} ({o['side']} {o['type']} qty={o['qty']} reduce_only={ro}) on a position of {float(pos)!r}: "
                             f"expected hook(s) {expect}, observed {names}"))
            elif 'pos_qty' in (got[-1][1] if got else {}):
                hq = got[-1][1]['pos_qty']
                if D(hq) != new:
                    vios.append((f'C06:sim={sim}:hooks{flip_tag}:position-size-in-hook', f"order {e['ord']}: hook saw position.qty {hq!r}, the fills imply {float(new)!r}"))
        if D(end['pos_qty_after']) != new and expect is not None:
            vios.append((f'C06:sim={sim}:position-size-after-fill{flip_tag}', f"order {e['ord']}: position.qty {end['pos_qty_after']!r}, the fills imply {float(new)!r}"))
        i = j + 1
    if r['error'] is not None or r['final'] is None:
        return vios, stats
    # ---- (ii) trade log ------------------------------------------------------------------
    fin = r['final']
    for sym in spec['candles']:
        got = [t for t in fin['trades'] if t['sym'] == sym]
        want = cycles.get(sym, [])
        if sym in cur:
            vios.append((f'C06:sim={sim}:position-still-open-after-session-end', f'{sym}: {float(size[sym])!r}'))
        if len(got) != len(want):
            vios.append((f'C06:sim={sim}:trade-count' + (':flip' if 'flip' in stats['classes'] else ''), f'{sym}: {len(got)} closed trades, the fills form {len(want)} completed cycles'))
            continue
        for k, (t, c) in enumerate(zip(got, want)):
            eq = sum(q for q, _ in c['entries'])
            ep = sum(q * p for q, p in c['entries']) / eq
            xq = sum(q for q, _ in c['exits'])
            xp = sum(q * p for q, p in c['exits']) / xq if xq else float('nan')
            tag = ':flip' if 'flip' in stats['classes'] else ''
            tag += ':oversize-exit' if any(True for _ in [0] if 'oversize-reduce-only-exit' in stats['classes']) else ''
            checks = [('type', t['type'] == c['type'], t['type'], c['type']), ('qty', rel_close(t['qty'], eq), t['qty'], eq),
                      ('entry_price', rel_close(t['entry_price'], ep), t['entry_price'], ep), ('exit_price', rel_close(t['exit_price'], xp), t['exit_price'], xp),
                      ('opened_at', t['opened_at'] == c['opened_at'], t['opened_at'], c['opened_at']),
                      ('closed_at', t['closed_at'] == c['closed_at'], t['closed_at'], c['closed_at']),
                      ('orders', t['orders'] == c['orders'], t['orders'], c['orders'])]
            for name, ok, g, w in checks:
                if not ok:
                    vios.append((f'C06:sim={sim}:trade-{name}{tag}', f'{sym} trade {k}: {name} = {g!r}, the fills of that cycle give {w!r} (entries {c["entries"]}, exits {c["exits"]})'))
            if c['fills'] >= 3:
                stats['classes'].add('trade-with-3+-fills')
    # ---- (iii) wallet identity (futures) ------------------------------------------------------
    if kind == 'futures':
        start = fin['starting_balance']
        wallet = fin['accounts']['assets']['USDT']
        total = sum(t['pnl'] for t in fin['trades'])
        tag = ':flip' if 'flip' in stats['classes'] else ''
        if abs((wallet - start) - total) > 1e-7 * start:
            vios.append((f'C06:sim={sim}:sum-of-trade-pnl-differs-from-wallet-change{tag}', f'sum of trade PnL {total!r}, wallet change {wallet - start!r}'))
        m = r['result']['metrics']
        if fin['trades']:
            if abs(m['net_profit'] - total) > 1e-7 * start:
                vios.append((f'C06:sim={sim}:metrics-net_profit{tag}', f"net_profit {m['net_profit']!r} vs sum of trade PnL {total!r}"))
            if abs(m['finishing_balance'] - wallet) > 1e-7 * start:
                vios.append((f'C06:sim={sim}:metrics-finishing_balance{tag}', f"finishing_balance {m['finishing_balance']!r} vs wallet {wallet!r}"))
            if abs((m['finishing_balance'] - m['starting_balance']) - m['net_profit']) > 1e-7 * start:
                vios.append((f'C06:sim={sim}:net-profit-and-finishing-balance-disagree{tag}', f"{m['finishing_balance']!r} - {m['starting_balance']!r} != {m['net_profit']!r}"))
    term = [e for e in r['trace'] if e['ev'] == 'submit' and e['phase'] == 'terminate']
    if term:
        stats['classes'].add('forced-close-at-end')
    return vios, stats


def run_case(spec):
    from vf.drive import session
    r = session.run(spec, obs='light')
    vios, stats = check_run(spec, r)
    if r['error'] and r['error']['type'] not in ('InsufficientMargin', 'InsufficientBalance', 'InvalidStrategy', 'OrderNotAllowed', 'Watchdog'):
        vios.append((f"C06:session-raised-{r['error']['type']}", r['error']['msg'][:300] + r['error']['tb'][-300:]))
    return vios, stats, r


def replay(case):
    return run_case(case['spec'])[0]


def run_shard(acc, shard, nshards, seed, tier):
    from vf import runner
    from vf.gen import sessions
    known = runner.known_signatures('C06')
    mins = (60, 180) if tier == 'quick' else (60, 400)
    fam = [('declarative', sessions.session(minutes=mins, max_data=0, warmup=(False,), align_len=True, program=dict(busy=True, oversize=True))),
           ('flips', sessions.session(minutes=mins, kinds=('futures',), max_data=0, warmup=(False,), align_len=True, max_symbols=1,
                                      program=dict(busy=True, flips=True))),
           # held, highly leveraged isolated-margin positions: the cycle is ended by the simulator's own liquidation order
           ('liquidations', sessions.session(minutes=mins, kinds=('futures',), modes=('isolated',), leverages=(10, 20, 50, 100, 125), max_data=0,
                                             fees=(0.0004, 0.001, 0.0075, 0.0), warmup=(False,), align_len=True, structural=False,
                                             program=dict(busy=True, hold=True, cycle=True)))]
    for name, sess in fam:
        def chk(spec, name=name):
            vios, stats, r = run_case(spec)
            nt = bool(stats['classes'] & {'trade-with-3+-fills', 'partial-exit', 'forced-close-at-end'})
            cl = [f'family:{name}', 'sim:' + ('fast' if spec['fast'] else 'step'), 'type:' + spec['cfg']['type']] + sorted(stats['classes'])
            if r['error']:
                cl.append('aborted')
            key = (spec['cfg'], spec['routes'], spec['scripts'], spec['candles'], spec['fast'])
            return dict(key=key, nontrivial=nt, classes=cl, violations=vios, sub=name,
                        sample=dict(cfg=spec['cfg'], routes=spec['routes'], fast=spec['fast'], minutes=spec['n'], fills=stats['fills'],
                                    trades=(r['final'] or {}).get('trades', [])[:2]) if nt else None)
        runner.hyp_search(acc, sess, chk, (60 if name == 'declarative' else 20) if tier == 'quick' else (2000 if name == 'declarative' else 500),
                          seed + {'declarative': 0, 'flips': 7, 'liquidations': 13}[name], tier, known=known, shrink_calls=25, max_shrink_sigs=2,
                          describe=lambda spec: dict(spec=spec))
