"""C10 - smart order routing and declarative exit orders."""

RULE = ("Hypothesis-generated sessions whose ScriptedStrategy programs declare every (qty, price) shape (tuple, list of tuples, "
        "list of lists, numpy array) in go_long/go_short, on_open_position, update_position, on_reduced_position, "
        "on_increased_position and through liquidate(), with price offsets that include exactly current x (1 +- 0.00015) and its "
        "neighbours, far better / far worse prices, repeated modifications over many steps and should_cancel_entry scripted per "
        "step. Oracles from the trace: (routing) every broker-created order outside the forced close of the session end must "
        "match a row of the strategy's latest declaration read at the moment of submission (|qty| equal; price equal - also for an exit routed as "
        "MARKET, which carries the declared price; a MARKET entry is matched to a row within 0.015 % of current), be MARKET iff |1 - p/current| <= 0.00015, otherwise an entry at a "
        "better price LIMIT / worse price STOP and an exit on the profit side LIMIT / loss side STOP, with exits reduce-only on "
        "the closing side and entries not reduce-only; (declarative) at every after() with an open position the active "
        "stop-loss (take-profit) orders map injectively onto rows of the latest stop_loss (take_profit) declaration, and with "
        "a closed position no reduce-only order is active; (cancel) entry orders resting at a step without a position are all "
        "cancelled by the end of that step iff should_cancel_entry() said yes, and the question is asked whenever such orders "
        "rest. distinct = digest of (candles, scripts, config); non-trivial = a modification after which an old exit order "
        "was cancelled, or a boundary-price declaration, or a should_cancel_entry = False step with resting entries.")
ASSUMPTIONS = [
    "exits declared in go_long/go_short on the wrong side of the entry price (documented immediate market close) are excluded by construction",
    "the 0.015 % test is evaluated with the same double expression as documented, abs(1 - p / current) <= 0.00015; a result within 4 ulps of the threshold admits either routing",
    "'current price' is strategy.price at the moment of submission (recorded by the harness)",
    "a MARKET entry is not held to the declared price: buy_at_market / sell_at_market take no price argument (the order carries the current price)",
]
TECHNIQUE = "trace oracle over generated strategy programs: routing decision table + injective matching of active exits onto the latest declaration"
MIN_NONTRIVIAL = {'quick': 60, 'thorough': 3000}
NEAR = 0.00015


def near(p, cur):
    d = abs(1 - (p / cur))
    if abs(d - NEAR) <= 4 * 2.3e-16:
        return None  # either
    return d <= NEAR


def match_row(rows, qty, price, typ, cur):
    if not rows:
        return None
    for i, (q, p) in enumerate(rows):
        if abs(q) == abs(qty) and p == price:
            return i
    if typ == 'MARKET':
        for i, (q, p) in enumerate(rows):
            if abs(q) == abs(qty) and near(p, cur) is not False:
                return i
    return None


def check_run(spec, r):
    vios, flags = [], set()
    sim = 'fast' if spec.get('fast') else 'step'
    omap = {o['ord']: o for o in r['orders']}
    # ---- routing ------------------------------------------------------------------------
    for e in r['trace']:
        if e['ev'] != 'submit' or e['phase'] in ('liquidation', 'terminate'):
            continue
        decl, cur = e.get('decl'), e.get('sprice')
        if decl is None or cur is None:
            continue
        side, typ, qty, price, ro = e['side'], e['type'], e['qty'], e['price'], e['reduce_only']
        pos = e['pos_qty']
        if ro:
            if pos == 0:
                vios.append((f'C10:sim={sim}:routing:reduce-only-order-without-position', f"order {e['ord']}"))
                continue
            closing = 'sell' if pos > 0 else 'buy'
            if side != closing:
                vios.append((f'C10:sim={sim}:routing:exit-not-on-closing-side', f"order {e['ord']} {side} while position {pos}"))
            i1, i2 = match_row(decl.get('stop_loss'), qty, price, typ, cur), match_row(decl.get('take_profit'), qty, price, typ, cur)
            if i1 is None and i2 is None:
                vios.append((f'C10:sim={sim}:routing:exit-order-nobody-asked-for', f"order {e['ord']} {typ} {side} qty={qty} price={price}: declarations {decl}"))
                continue
            cands = [decl['stop_loss'][i1][1]] if i1 is not None else []
            if i2 is not None:
                cands.append(decl['take_profit'][i2][1])
            p = price if price in cands else cands[0]  # a MARKET exit may be near rows of both lists: the row with its exact price is the one it was made for
            nr = near(p, cur)
            if nr is None:
                flags.add('boundary-price')
                continue
            want = 'MARKET' if nr else ('LIMIT' if ((p > cur) == (pos > 0)) else 'STOP')
            if abs(1 - p / cur) < 0.0003:
                flags.add('boundary-price')
            if typ != want:
                vios.append((f'C10:sim={sim}:routing:exit-type:{want}-expected-{typ}-submitted', f"order {e['ord']}: exit at {p!r} with current price {cur!r} on a {'long' if pos > 0 else 'short'} routed as {typ}"))
            if price != p:
                # (an exit routed as MARKET keeps the declared price too: Broker.reduce_position_at passes it on; a MARKET *entry*
                # goes through buy_at_market/sell_at_market, which take no price, and is therefore not held to it)
                vios.append((f"C10:sim={sim}:routing:exit-price{':market-order' if typ == 'MARKET' else ''}", f"order {e['ord']} {typ} price {price!r} declared {p!r} (current {cur!r})"))
        else:
            rows = decl.get('buy') if side == 'buy' else decl.get('sell')
            i = match_row(rows, qty, price, typ, cur)
            if i is None and typ == 'MARKET' and pos != 0 and side == ('sell' if pos > 0 else 'buy') and e.get('pos_entry') is not None:
                # documented: an exit declared on the wrong side of (or at) the entry price is replaced by an immediate market close
                ent = e['pos_entry']
                wrong = [(q, p) for q, p in (decl.get('stop_loss') or []) if abs(q) == abs(qty) and ((pos > 0 and p >= ent) or (pos < 0 and p <= ent))]
                wrong += [(q, p) for q, p in (decl.get('take_profit') or []) if abs(q) == abs(qty) and ((pos > 0 and p <= ent) or (pos < 0 and p >= ent))]
                if wrong:
                    flags.add('wrong-side-exit-replaced-by-market-close')
                    continue
            if i is None:
                # an exit declared as a plain market order on the closing side is what _on_open_position does for wrong-side exits: excluded by construction
                vios.append((f'C10:sim={sim}:routing:entry-order-nobody-asked-for', f"order {e['ord']} {typ} {side} qty={qty} price={price}: declarations {decl}"))
                continue
            p = rows[i][1]
            nr = near(p, cur)
            if nr is None:
                flags.add('boundary-price')
                continue
            if abs(1 - p / cur) < 0.0003:
                flags.add('boundary-price')
            want = 'MARKET' if nr else ('LIMIT' if ((p < cur) == (side == 'buy')) else 'STOP')
            if typ != want:
                vios.append((f'C10:sim={sim}:routing:entry-type:{want}-expected-{typ}-submitted', f"order {e['ord']}: {side} entry at {p!r} with current price {cur!r} routed as {typ}"))
            if typ != 'MARKET' and price != p:
                vios.append((f'C10:sim={sim}:routing:entry-price', f"order {e['ord']} price {price!r} declared {p!r}"))
    # ---- declarative + cancel ---------------------------------------------------------------
    cancelled_since = set()
    pending_q = {}
    need_q = {}
    begin_stack = []
    last_open = {}
    n_sub = -1
    flipped = set()
    for e in r['trace']:
        if e['ev'] == 'submit':
            n_sub = e['ord']
        if e['ev'] == 'executed' and e.get('after') == 'EXECUTED':
            b = next((x['pos_qty_before'] for x in reversed(begin_stack) if x['ord'] == e['ord']), None)
            if b is not None and b * e['pos_qty_after'] < 0:
                # a position flip (an order larger than the position on its closing side, e.g. the documented market replacement of a
                # wrong-side exit sized for a bigger position): jesse cancels nothing then (C06 known finding); stop judging this symbol
                flipped.add(e['sym'])
                flags.add('stopped:position-flip')
        if e['ev'] == 'execute':
            begin_stack.append(e)
        if e.get('sym') in flipped:
            continue
        if e['ev'] == 'hook' and e['name'] == 'on_open_position':
            # orders of the new position cycle are the opening order's reaction orders and everything after
            last_open[e['sym']] = (e.get('ord') if e.get('ord') is not None else n_sub)
        if e['ev'] == 'cancel' and e['before'] == 'ACTIVE':
            o = omap.get(e['ord'])
            if o and o['reduce_only']:
                cancelled_since.add(e['ord'])
        if e['ev'] == 'cancel-q':
            pending_q[e['sym']] = e
            if not e['answer'] and e['resting']:
                flags.add('should_cancel_entry=False-with-resting-entries')
        if e['ev'] != 'hook':
            continue
        if e['name'] == 'before' and 'active' in e:
            resting = [k for k in e['active'] if omap.get(k) and omap[k]['type'] != 'MARKET']
            need_q[e['sym']] = (e['idx'], bool(resting) and e['pos_qty'] == 0)
            pending_q.pop(e['sym'], None)
        if e['name'] != 'after' or 'active' not in e:
            continue
        sym = e['sym']
        act = [omap[k] for k in e['active'] if k in omap]
        if e['pos_qty'] == 0:
            ro = [o['ord'] for o in act if o['reduce_only']]
            if ro:
                vios.append((f'C10:sim={sim}:declarative:exit-order-active-without-position', f"after() idx={e['idx']}: reduce-only orders {ro} active while the position is closed"))
        else:
            decl = e.get('decl') or {}
            via = {int(k): v for k, v in (e.get('via') or {}).items()}
            for kind, key in (('stop-loss', 'stop_loss'), ('take-profit', 'take_profit')):
                rows = [list(x) for x in (decl.get(key) or [])]
                used = set()
                for o in act:
                    if via.get(o['ord']) != kind:
                        continue
                    hit = None
                    for i, (q, p) in enumerate(rows):
                        if i in used:
                            continue
                        if abs(q) == abs(o['qty']) and p == o['price']:
                            hit = i
                            break
                    if hit is None:
                        vios.append((f'C10:sim={sim}:declarative:stale-{kind}-order', f"after() idx={e['idx']}: active {kind} order {o['ord']} (qty {o['qty']}, price {o['price']}) matches no unused row of the latest declaration {rows}"))
                    else:
                        used.add(hit)
            # the converse: every declared row has an order of this position cycle (active, or already executed)
            cycle_start = last_open.get(sym, -1)
            for kind, key in (('stop-loss', 'stop_loss'), ('take-profit', 'take_profit')):
                for q, p in [list(x) for x in (decl.get(key) or [])]:
                    found = False
                    for o in r['orders']:
                        if o['sym'] != sym or o['ord'] <= cycle_start or o['via'] != kind or abs(o['qty']) != abs(q):
                            continue
                        if o['price'] == p or (o['type'] == 'MARKET' and near(p, o['price']) is not False):
                            found = True
                            break
                    if not found and r['error'] is None:
                        vios.append((f'C10:sim={sim}:declarative:declared-{kind}-row-has-no-order', f"after() idx={e['idx']}: {key} row ({q}, {p}) was declared but no {kind} order of this position exists"))
            if cancelled_since:
                flags.add('modification-cancelled-old-exit')
        cancelled_since = set()
        q = pending_q.pop(sym, None)
        nq = need_q.get(sym)
        if nq and nq[0] == e['idx'] and nq[1] and q is None and r['error'] is None:
            vios.append((f'C10:sim={sim}:cancel:should_cancel_entry-not-asked', f"step idx={e['idx']}: entry orders rest without a position but should_cancel_entry() was not consulted"))
        if q is not None and q['idx'] == e['idx']:
            still = [k for k in q['resting'] if k in e['active']]
            if q['answer'] and still:
                vios.append((f'C10:sim={sim}:cancel:entries-survive-although-should_cancel_entry-said-yes', f"step idx={e['idx']}: orders {still} still active"))
            if not q['answer']:
                gone = [k for k in q['resting'] if k not in e['active'] and omap.get(k, {}).get('status') == 'CANCELED']
                if gone:
                    vios.append((f'C10:sim={sim}:cancel:entries-cancelled-although-should_cancel_entry-said-no', f"step idx={e['idx']}: orders {gone} were cancelled"))
    return vios, flags


def run_case(spec):
    from vf.drive import session
    r = session.run(spec, obs='light')
    vios, flags = check_run(spec, r)
    if r['error'] and r['error']['type'] not in ('InsufficientMargin', 'InsufficientBalance', 'InvalidStrategy', 'OrderNotAllowed', 'Watchdog'):
        vios.append((f"C10:session-raised-{r['error']['type']}", r['error']['msg'][:300] + r['error']['tb'][-300:]))
    return vios, flags, r


def replay(case):
    return run_case(case['spec'])[0]


def run_shard(acc, shard, nshards, seed, tier):
    from vf import runner
    from vf.gen import sessions
    known = runner.known_signatures('C10')
    sess = sessions.session(minutes=(60, 200) if tier == 'quick' else (60, 400), max_data=0, warmup=(False,), align_len=True,
                            program=dict(busy=True, boundary=True, fixed=True, cycle=True, clears=True, no_update=True))

    def chk(spec):
        vios, flags, r = run_case(spec)
        nt = bool(flags)
        cl = ['sim:' + ('fast' if spec['fast'] else 'step'), 'type:' + spec['cfg']['type'], 'tf:' + spec['routes'][0]['timeframe']] + sorted(flags)
        if r['error']:
            cl.append('aborted:' + r['error']['type'])
        return dict(key=(spec['cfg'], spec['routes'], spec['scripts'], spec['candles'], spec['fast']), nontrivial=nt, classes=cl, violations=vios,
                    sample=dict(cfg=spec['cfg'], routes=spec['routes'], fast=spec['fast'], minutes=spec['n'], orders=len(r['orders']),
                                first_orders=r['orders'][:3]) if nt else None)
    runner.hyp_search(acc, sess, chk, 40 if tier == 'quick' else 2500, seed, tier, known=known, shrink_calls=25, max_shrink_sigs=2,
                      describe=lambda spec: dict(spec=spec))
