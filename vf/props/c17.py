"""C17 - sizing and numeric helpers never overspend, over-risk or round up."""
import itertools
import math
from decimal import Decimal
from fractions import Fraction

RULE = ("Hypothesis-generated arguments for size_to_qty / risk_to_qty / sum_floats / subtract_floats / round_qty_for_live_mode / "
        "round_decimals_down / limit_stop_loss, with boundary-directed construction for the sizing helpers (capital = "
        "lattice quantity x price / fee factor, shifted by -2..+2 ulps, so that the exact quotient sits on a flooring "
        "boundary) mixed with uniform draws; exhaustive enumeration of the 17 timeframes and all timeframe subsets of "
        "size <= 3 for the tables. Oracles: exact rational arithmetic (fractions.Fraction of the floats), decimal "
        "arithmetic of the shortest reprs, and end-to-end acceptance of Order(qty, price) by a fresh SpotExchange and a "
        "fresh 1x FuturesExchange holding exactly the capital. distinct = digest of the argument tuple; non-trivial = the "
        "exact quotient lies within 2 ulps of a precision-lattice point, or fee>0 with precision<8, or (decimal helpers) "
        "the float sum differs from the decimal sum, or (rounding) the input is within 2 ulps of a lattice point or a decimal hair (under 1e-5 step) below one.")
ASSUMPTIONS = [
    "capital 1..1e7, price 1e-6..1e6, fee 0..0.01, precision 0..8, risk 0.01..100 %, as in the property's quantifier",
    "'never costs more than the capital' is decided by what a fresh account does with the order (spot: quote reservation; "
    "futures 1x: margin test) and by exact arithmetic with an allowance of 4 ulps of the capital; an exact-arithmetic "
    "excess below that allowance that no account rejects is not reported",
    "'at most one precision step below the exact quotient' allows 2 ulps of the quotient plus 2 ulps of the quantity",
    "'never rounds up' for the live-mode rounding allows 2 ulps of the input (a float one ulp below a lattice point is "
    "that lattice point for every exchange API)",
    "limit_stop_loss is called with the stop on the losing side of the entry (long: stop < entry; short: stop > entry)",
]
TECHNIQUE = "Hypothesis with boundary-directed generators; exact-rational and decimal oracles; end-to-end acceptance differential; exhaustive table enumeration"
MIN_NONTRIVIAL = {'quick': 2000, 'thorough': 50000}

ALL_TF = ['1m', '3m', '5m', '15m', '30m', '45m', '1h', '2h', '3h', '4h', '6h', '8h', '12h', '1D', '3D', '1W', '1M']
_UNIT = {'m': 1, 'h': 60, 'D': 1440, 'W': 10080, 'M': 43200}


def tf_len(tf):
    return int(tf[:-1]) * _UNIT[tf[-1]]


def ulp(x):
    return math.ulp(abs(x)) if x != 0 else math.ulp(0.0)


class Acceptor:
    """End-to-end: does a fresh account holding `capital` accept Order(qty, price)?"""

    def __init__(self):
        from vf.drive.bench import Bench
        b = Bench('spot', 0.0, 1000.0)
        b.close()
        self.store = b.store

    def accepts(self, kind, capital, qty, price, fee):
        import jesse.helpers as jh
        from jesse.models import Order, SpotExchange, FuturesExchange
        from jesse.exceptions import InsufficientBalance, InsufficientMargin
        from vf.drive.bench import EX
        ex = SpotExchange(EX, capital, fee) if kind == 'spot' else FuturesExchange(EX, capital, fee, 'cross', 1)
        self.store.exchanges.storage[EX] = ex
        try:
            Order({'id': jh.generate_unique_id(), 'symbol': 'BTC-USDT', 'exchange': EX, 'side': 'buy', 'type': 'LIMIT',
                   'reduce_only': False, 'qty': qty, 'price': price})
            return True
        except (InsufficientBalance, InsufficientMargin):
            return False


def check_size_to_qty(acceptor, capital, price, precision, fee):
    from jesse import utils
    vios, classes = [], []
    try:
        qty = utils.size_to_qty(capital, price, precision=precision, fee_rate=fee)
    except Exception as e:  # noqa  - positive capital and price, precision 0..8, fee in [0, 0.01]: nothing to reject
        return [(f'C17:size_to_qty:raised-{type(e).__name__}', f'size_to_qty({capital!r}, {price!r}, precision={precision}, fee_rate={fee!r}) raised {e!r}')], classes, True
    step = Fraction(1, 10 ** precision)
    size = Fraction(capital) * (1 - 3 * Fraction(fee)) if fee != 0 else Fraction(capital)
    quotient = size / Fraction(price)
    fq = Fraction(qty)
    cost = fq * Fraction(price) * (1 + Fraction(fee))
    near = abs((quotient / step) - round(quotient / step)) * step <= 2 * Fraction(ulp(float(quotient)))
    nontrivial = near or (fee > 0 and precision < 8)
    if near:
        classes.append('size_to_qty:boundary')
    if qty < 0 or not math.isfinite(qty):
        vios.append(('C17:size_to_qty:negative-or-nonfinite', f'qty={qty!r}'))
    if cost > Fraction(capital) + 4 * Fraction(ulp(capital)):
        vios.append(('C17:size_to_qty:cost-exceeds-capital',
                     f'size_to_qty({capital!r}, {price!r}, precision={precision}, fee_rate={fee!r}) = {qty!r}; exact cost incl. fee = {float(cost)!r} > capital'))
    tol = 2 * Fraction(ulp(float(quotient))) + 2 * Fraction(ulp(qty))
    if quotient - fq >= step + tol:
        vios.append(('C17:size_to_qty:more-than-one-step-below',
                     f'size_to_qty({capital!r}, {price!r}, {precision}, {fee!r}) = {qty!r}; exact quotient {float(quotient)!r}'))
    if fq - quotient > tol and False:
        pass
    if qty > 0:
        for kind in ('spot', 'futures'):
            if not acceptor.accepts(kind, capital, qty, price, fee):
                classes.append('size_to_qty:rejected')
                vios.append((f'C17:size_to_qty:rejected-by-fresh-{kind}-account',
                             f'size_to_qty({capital!r}, {price!r}, precision={precision}, fee_rate={fee!r}) = {qty!r} but a fresh {kind} account holding {capital!r} rejects the order; qty*price in doubles = {qty * price!r}'))
    return vios, classes, nontrivial


def check_risk_to_qty(acceptor, capital, risk, entry, stop, precision, fee):
    from jesse import utils
    vios, classes = [], []
    try:
        qty = utils.risk_to_qty(capital, risk, entry, stop, precision=precision, fee_rate=fee)
    except Exception as e:  # noqa  - positive capital, a risk percentage in (0, 100], positive and different prices: nothing to reject
        return [(f'C17:risk_to_qty:raised-{type(e).__name__}', f'risk_to_qty({capital!r},{risk!r},{entry!r},{stop!r},{precision},{fee!r}) raised {e!r}')], classes, True
    fq = Fraction(qty)
    step = Fraction(1, 10 ** precision)
    risk_per_qty = abs(Fraction(entry) - Fraction(stop))
    allowed = Fraction(capital) * Fraction(risk) / 100
    if fq * risk_per_qty > allowed * (1 + Fraction(1, 10 ** 12)):
        vios.append(('C17:risk_to_qty:over-risk', f'risk_to_qty({capital!r},{risk!r},{entry!r},{stop!r},{precision},{fee!r}) = {qty!r} risks {float(fq * risk_per_qty)!r} > {float(allowed)!r}'))
    cost = fq * Fraction(entry) * (1 + Fraction(fee))
    if cost > Fraction(capital) + 4 * Fraction(ulp(capital)):
        vios.append(('C17:risk_to_qty:cost-exceeds-capital', f'risk_to_qty({capital!r},{risk!r},{entry!r},{stop!r},{precision},{fee!r}) = {qty!r} costs {float(cost)!r}'))
    size = min(allowed / risk_per_qty * Fraction(entry), Fraction(capital))
    capped = size == Fraction(capital)
    if capped:
        classes.append('risk_to_qty:capped-by-capital')
    f3 = (1 - 3 * Fraction(fee))
    lower_q = size * (f3 * f3 if fee != 0 else 1) / Fraction(entry)
    tol = 4 * Fraction(ulp(float(lower_q))) + 2 * Fraction(ulp(qty)) + Fraction(1, 10 ** 12) * lower_q
    if lower_q - fq >= step + tol:
        vios.append(('C17:risk_to_qty:more-than-one-step-below', f'risk_to_qty({capital!r},{risk!r},{entry!r},{stop!r},{precision},{fee!r}) = {qty!r}, quotient {float(lower_q)!r}'))
    if qty > 0 and capped:
        for kind in ('spot', 'futures'):
            if not acceptor.accepts(kind, capital, qty, entry, fee):
                vios.append((f'C17:risk_to_qty:rejected-by-fresh-{kind}-account', f'risk_to_qty({capital!r},{risk!r},{entry!r},{stop!r},{precision},{fee!r}) = {qty!r} rejected'))
    return vios, classes, True


def check_decimal(a, b):
    from jesse import utils
    vios = []
    es = float(Decimal(repr(a)) + Decimal(repr(b)))
    ed = float(Decimal(repr(a)) - Decimal(repr(b)))
    s, d = utils.sum_floats(a, b), utils.subtract_floats(a, b)
    if s != es:
        vios.append(('C17:sum_floats:mismatch', f'sum_floats({a!r},{b!r}) = {s!r}, decimal sum {es!r}'))
    if d != ed:
        vios.append(('C17:subtract_floats:mismatch', f'subtract_floats({a!r},{b!r}) = {d!r}, decimal difference {ed!r}'))
    return vios, [], (a + b != es or a - b != ed)


def check_rounding(x, precision):
    import numpy as np
    import jesse.helpers as jh
    vios = []
    step = 10.0 ** -precision
    r = jh.round_qty_for_live_mode(x, precision)
    fl = jh.round_decimals_down(x, precision)
    tol = 2 * ulp(x)
    exact_floor = math.floor(Fraction(x) * 10 ** precision)
    near = abs(Fraction(x) * 10 ** precision - round(Fraction(x) * 10 ** precision)) <= 4 * Fraction(ulp(x)) * 10 ** precision
    if not isinstance(r, float):
        vios.append(('C17:round_qty_for_live_mode:type', f'{type(r)}'))
    if float(fl) > x:  # exactly: 'never rounds up' has no tolerance (an order one ulp above a balance is rejected)
        vios.append(('C17:round_decimals_down:rounds-up', f'round_decimals_down({x!r},{precision}) = {float(fl)!r}'))
    if x - float(fl) >= step + tol:
        vios.append(('C17:round_decimals_down:more-than-one-step', f'round_decimals_down({x!r},{precision}) = {float(fl)!r}'))
    if exact_floor == 0 and not near:
        if abs(r - step) > 1e-12 * step:
            vios.append(('C17:round_qty_for_live_mode:zero-floor-not-minimum-unit', f'round_qty_for_live_mode({x!r},{precision}) = {r!r}, expected {step!r}'))
    elif not near or exact_floor > 0:
        if r > x and not (exact_floor == 0):
            vios.append(('C17:round_qty_for_live_mode:rounds-up', f'round_qty_for_live_mode({x!r},{precision}) = {r!r}'))
        if x - r >= step + tol:
            vios.append(('C17:round_qty_for_live_mode:more-than-one-step', f'round_qty_for_live_mode({x!r},{precision}) = {r!r}'))
    # array form agrees with the scalar form
    arr = jh.round_qty_for_live_mode(np.array([x, x * 2 + step]), precision)
    if float(arr[0]) != r:
        vios.append(('C17:round_qty_for_live_mode:array-vs-scalar', f'{arr!r} vs {r!r}'))
    for dneg in (-1, -2):
        f2 = float(jh.round_decimals_down(x * 1000, dneg))
        st = 10.0 ** (-dneg)
        if f2 > x * 1000 or x * 1000 - f2 >= st + 2 * ulp(x * 1000):
            vios.append(('C17:round_decimals_down:negative-decimals', f'round_decimals_down({x * 1000!r},{dneg}) = {f2!r}'))
    scaled = Fraction(x) * 10 ** precision
    hair = (not near) and 0 < (math.ceil(scaled) - scaled) < Fraction(1, 10 ** 5)
    return vios, (['rounding:boundary'] if near else []) + (['rounding:hair-below-lattice-point'] if hair else []), bool(near or hair or exact_floor == 0)


def check_limit_stop_loss(entry, dist, side, max_pct):
    from jesse import utils
    vios = []
    stop = entry - dist if side == 'long' else entry + dist
    if stop <= 0 or stop == entry:
        return [], [], False
    r = utils.limit_stop_loss(entry, stop, side, max_pct)
    risk0 = abs(Fraction(entry) - Fraction(stop))
    risk1 = abs(Fraction(entry) - Fraction(r))
    tol = 2 * Fraction(ulp(entry))
    if risk1 > risk0 + tol:
        vios.append(('C17:limit_stop_loss:widens-risk', f'limit_stop_loss({entry!r},{stop!r},{side!r},{max_pct!r}) = {r!r}'))
    if risk1 > Fraction(entry) * Fraction(max_pct) / 100 + tol + Fraction(entry) * Fraction(max_pct) / 100 / 10 ** 12:
        vios.append(('C17:limit_stop_loss:beyond-allowed-percentage', f'limit_stop_loss({entry!r},{stop!r},{side!r},{max_pct!r}) = {r!r}'))
    if (side == 'long' and r > entry) or (side == 'short' and r < entry):
        vios.append(('C17:limit_stop_loss:wrong-side', f'limit_stop_loss({entry!r},{stop!r},{side!r},{max_pct!r}) = {r!r}'))
    limited = risk0 > Fraction(entry) * Fraction(max_pct) / 100
    if not limited and r != stop and abs(Fraction(r) - Fraction(stop)) > tol:
        vios.append(('C17:limit_stop_loss:moves-an-allowed-stop', f'limit_stop_loss({entry!r},{stop!r},{side!r},{max_pct!r}) = {r!r}'))
    er = utils.estimate_risk(entry, stop)
    if abs(Fraction(er) - risk0) > tol:
        vios.append(('C17:estimate_risk:mismatch', f'estimate_risk({entry!r},{stop!r}) = {er!r}'))
    return vios, (['limit_stop_loss:limited'] if limited else []), True


def check_tables(acc):
    from jesse import utils
    import jesse.helpers as jh
    from jesse.modes import backtest_mode
    from jesse.enums import timeframes as tfe
    declared = [v for k, v in vars(tfe).items() if not k.startswith('_')]
    if sorted(declared) != sorted(ALL_TF):
        acc.violation('C17:timeframes:enum-changed', f'declared {declared}', dict(kind='tables'))
    n = 0
    for tf in ALL_TF:
        want = tf_len(tf)
        for name, got in (('utils.timeframe_to_one_minutes', lambda: utils.timeframe_to_one_minutes(tf)),
                          ('helpers.timeframe_to_one_minutes', lambda: jh.timeframe_to_one_minutes(tf)),
                          ('backtest_mode.timeframe_to_one_minutes', lambda: backtest_mode.timeframe_to_one_minutes[tf])):
            n += 1
            try:
                g = got()
            except Exception as e:  # noqa
                g = repr(e)
            if g != want:
                acc.violation(f'C17:{name}:{tf}', f'{name}({tf}) = {g}, length is {want}', dict(kind='tables', tf=tf))
        try:
            a = utils.anchor_timeframe(tf)
            if tf_len(a) <= want:
                acc.violation(f'C17:anchor_timeframe:not-longer:{tf}', f'anchor_timeframe({tf}) = {a}', dict(kind='tables', tf=tf))
        except KeyError:
            pass  # no anchor defined for the longest timeframes
        n += 1
    acc.case(key='tables', nontrivial=True, classes=['tables'], n=n, sub='timeframe-tables',
             sample=dict(check='timeframe tables', timeframes=ALL_TF))
    acc.mark_exhaustive('timeframe-tables', 'all 17 timeframes x 3 tables + anchor_timeframe')
    cnt = 0
    for k in (1, 2, 3):
        for sub in itertools.combinations(ALL_TF, k):
            for order in ([list(sub), list(reversed(sub))] if k > 1 else [list(sub)]):
                cnt += 1
                want = max(sub, key=tf_len)
                got = jh.max_timeframe(order)
                if got != want:
                    acc.violation(f'C17:max_timeframe:ignores={want}', f'max_timeframe({order}) = {got}, longest is {want}',
                                  dict(kind='max_timeframe', tfs=order), size=len(order))
    acc.case(key='max_timeframe', nontrivial=True, classes=['max_timeframe'], n=cnt, sub='max_timeframe-subsets<=3')
    acc.mark_exhaustive('max_timeframe-subsets<=3', 'all non-empty subsets of the 17 timeframes of size <= 3, both orders')


def replay(case):
    k = case['kind']
    if k == 'size_to_qty':
        return check_size_to_qty(Acceptor(), case['capital'], case['price'], case['precision'], case['fee'])[0]
    if k == 'risk_to_qty':
        return check_risk_to_qty(Acceptor(), case['capital'], case['risk'], case['entry'], case['stop'], case['precision'], case['fee'])[0]
    if k == 'decimal':
        return check_decimal(case['a'], case['b'])[0]
    if k == 'rounding':
        return check_rounding(case['x'], case['precision'])[0]
    if k == 'limit_stop_loss':
        return check_limit_stop_loss(case['entry'], case['dist'], case['side'], case['max_pct'])[0]
    if k in ('tables', 'max_timeframe'):
        from vf.runner import Acc
        a = Acc('C17', 0)
        check_tables(a)
        return [(v['signature'], v['message']) for v in a.violations]
    raise ValueError(k)


def run_shard(acc, shard, nshards, seed, tier):
    from hypothesis import strategies as st
    from vf import runner
    known = runner.known_signatures('C17')
    if shard == 0:
        check_tables(acc)
    acceptor = Acceptor()
    n = {'quick': 2500, 'thorough': 120000}[tier]

    fees = st.one_of(st.just(0.0), st.sampled_from([0.0004, 0.001, 0.00075, 0.0075, 0.01]), st.floats(0, 0.01))
    precs = st.integers(0, 8)
    prices = st.one_of(st.floats(1e-6, 1e6), st.floats(0.5, 70000).map(lambda x: round(x, 2)), st.floats(1e-6, 1.0))

    @st.composite
    def directed(draw):
        p = draw(precs)
        price = draw(prices)
        fee = draw(fees)
        k = draw(st.integers(1, 10 ** 7))
        q0 = k / 10 ** p
        capital = q0 * price
        if fee != 0:
            capital = capital / (1 - 3 * fee)
        shift = draw(st.integers(-2, 2))
        for _ in range(abs(shift)):
            capital = math.nextafter(capital, math.inf if shift > 0 else -math.inf)
        return dict(kind='size_to_qty', capital=capital, price=price, precision=p, fee=fee, directed=True)

    uniform = st.fixed_dictionaries(dict(kind=st.just('size_to_qty'), capital=st.floats(1, 1e7), price=prices, precision=precs, fee=fees))
    size_cases = st.one_of(directed(), directed(), uniform).filter(lambda c: 1 <= c['capital'] <= 1e7)

    def chk_size(c):
        vios, classes, nt = check_size_to_qty(acceptor, c['capital'], c['price'], c['precision'], c['fee'])
        return dict(key=c, nontrivial=nt, classes=classes + (['size_to_qty:directed'] if c.get('directed') else ['size_to_qty:uniform']),
                    sample=c, violations=vios, sub='size_to_qty')
    runner.hyp_search(acc, size_cases, chk_size, n, seed, tier, known=known)

    @st.composite
    def risk_cases(draw):
        capital = draw(st.floats(1, 1e7))
        entry = draw(prices)
        rel = draw(st.one_of(st.floats(1e-5, 0.5), st.floats(1e-3, 0.1)))
        stop = entry * (1 - rel) if draw(st.booleans()) else entry * (1 + rel)
        risk = draw(st.one_of(st.floats(0.01, 100), st.sampled_from([0.5, 1.0, 2.0, 5.0, 100.0])))
        return dict(kind='risk_to_qty', capital=capital, risk=risk, entry=entry, stop=stop, precision=draw(precs), fee=draw(fees))

    def chk_risk(c):
        if c['stop'] <= 0 or c['stop'] == c['entry']:
            return dict(key=None, nontrivial=False, violations=[], sub='risk_to_qty')
        vios, classes, nt = check_risk_to_qty(acceptor, c['capital'], c['risk'], c['entry'], c['stop'], c['precision'], c['fee'])
        return dict(key=c, nontrivial=nt, classes=classes, sample=c, violations=vios, sub='risk_to_qty')
    runner.hyp_search(acc, risk_cases(), chk_risk, n // 2, seed + 1, tier, known=known)

    dec8 = st.one_of(st.integers(-10 ** 12, 10 ** 12).map(lambda k: k / 10 ** 8), st.integers(-10 ** 6, 10 ** 6).map(lambda k: k / 10),
                     st.integers(0, 10 ** 9).map(lambda k: k / 10 ** 4), st.sampled_from([0.1, 0.2, 0.3, 1e-8, 0.7, 1.1, 2.2]),
                     # 16-17 significant digits: balances of 1e7..9e7 units quoted to 8 decimals
                     st.integers(10 ** 15, 9 * 10 ** 15).map(lambda k: k / 10 ** 8), st.integers(-9 * 10 ** 15, 9 * 10 ** 15).map(lambda k: k / 10 ** 8))
    # pairs that nearly cancel / differ in the last quoted decimal
    near = st.tuples(dec8, st.integers(-50, 50)).map(lambda t: (t[0], float(Decimal(repr(t[0])) + Decimal(t[1]) / 10 ** 8)))

    def chk_dec(c):
        vios, classes, nt = check_decimal(c[0], c[1])
        return dict(key=c, nontrivial=nt, classes=['decimal:float-sum-differs'] if nt else [], sample=dict(kind='decimal', a=c[0], b=c[1]),
                    violations=vios, sub='sum/subtract_floats')
    runner.hyp_search(acc, st.one_of(st.tuples(dec8, dec8), st.tuples(dec8, dec8), near), chk_dec, n, seed + 2, tier, known=known,
                      describe=lambda c: dict(kind='decimal', a=c[0], b=c[1]))

    @st.composite
    def round_cases(draw):
        p = draw(precs)
        style = draw(st.sampled_from(['ulps', 'ulps', 'hair', 'free', 'free']))
        if style == 'hair':
            # a lattice point minus / plus a decimal hair far below the step (1e-6 .. 1e-13 of a step), e.g. 0.29999999 at precision 1
            from decimal import Decimal
            k = draw(st.integers(1, 10 ** 6))
            j = draw(st.integers(6, 13))
            m = draw(st.sampled_from([1, 1, 2, 5, 9]))
            sgn = draw(st.sampled_from([-1, -1, 1]))
            x = float(Decimal(k) / (Decimal(10) ** p) + sgn * m * Decimal(10) ** -(p + j))
        elif style == 'ulps':
            k = draw(st.integers(0, 10 ** 7))
            x = k / 10 ** p
            shift = draw(st.integers(-2, 2))
            for _ in range(abs(shift)):
                x = math.nextafter(x, math.inf if shift > 0 else -math.inf)
        else:
            x = draw(st.floats(1e-9, 1e6))
        return (x, p)

    def chk_round(c):
        if c[0] <= 0:
            return dict(key=None, nontrivial=False, violations=[], sub='rounding')
        vios, classes, nt = check_rounding(c[0], c[1])
        return dict(key=c, nontrivial=nt, classes=classes, sample=dict(kind='rounding', x=c[0], precision=c[1]), violations=vios, sub='rounding')
    runner.hyp_search(acc, round_cases(), chk_round, n, seed + 3, tier, known=known,
                      describe=lambda c: dict(kind='rounding', x=c[0], precision=c[1]))

    lsl = st.tuples(prices, st.floats(1e-6, 0.99), st.sampled_from(['long', 'short']),
                    st.one_of(st.floats(0.01, 100), st.integers(1, 50).map(float)))

    def chk_lsl(c):
        entry, rel, side, mp = c
        vios, classes, nt = check_limit_stop_loss(entry, entry * rel, side, mp)
        return dict(key=c, nontrivial=nt, classes=classes, sample=dict(kind='limit_stop_loss', entry=entry, dist=entry * rel, side=side, max_pct=mp),
                    violations=vios, sub='limit_stop_loss')
    runner.hyp_search(acc, lsl, chk_lsl, n // 2, seed + 4, tier, known=known,
                      describe=lambda c: dict(kind='limit_stop_loss', entry=c[0], dist=c[0] * c[1], side=c[2], max_pct=c[3]))
