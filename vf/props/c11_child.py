"""Child process of the C11 check: runs a list of research.backtest calls in ONE fresh interpreter, without any harness-side
cleaning of jesse's globals, and reports what the last call (the probe) returned."""
import json
import math
import os
import sys


def clean(x):
    if isinstance(x, float):
        if math.isnan(x):
            return 'NaN'
        if math.isinf(x):
            return 'Infinity' if x > 0 else '-Infinity'
        return x
    if isinstance(x, dict):
        return {str(k): clean(v) for k, v in x.items()}
    if isinstance(x, (list, tuple)):
        return [clean(v) for v in x]
    try:
        import numpy as np
        if isinstance(x, np.generic):
            return clean(x.item())
    except Exception:
        pass
    if isinstance(x, (str, int, bool)) or x is None:
        return x
    return repr(x)


def main():
    import warnings
    warnings.filterwarnings('ignore')
    calls = json.load(sys.stdin)
    real_stdout = sys.stdout
    sys.stdout = open(os.devnull, 'w')
    from vf.drive import session
    session.REUSE_CLASSES[0] = True  # calls with an equal (symbol, script) pass the very same strategy class object
    out = None
    summaries = []
    held = []
    late = []
    for i, spec in enumerate(calls):
        reuse = None
        if spec.get('reuse_route_objects') and held:
            # the caller edits the route dicts of its previous call in place and passes the same list objects again: whatever the
            # previous call's arguments should still be is checked now, and those two arguments are then released from the later re-check
            live, frozen = held[-1]
            now = session._freeze(live)
            bad = [k for k in now if now[k] != frozen[k]]
            if bad:
                late.append(dict(call=len(held) - 1, of=len(calls), modified=bad))
            reuse = dict(routes=live['routes'], data_routes=live['data_routes'])
            held[-1] = ({k: v for k, v in live.items() if k not in ('routes', 'data_routes')}, {k: v for k, v in frozen.items() if k not in ('routes', 'data_routes')})
        r = session.run(spec, obs='off', clean_globals=False, check_args=True, reuse_args=reuse)
        held.append(r.pop('_live_args'))
        fin = r['final'] or {}
        summ = dict(error=r['error'] and r['error']['type'], n_orders=len(r['orders']), n_trades=len(fin.get('trades', [])))
        summaries.append(summ)
        if i == len(calls) - 1:
            out = dict(result=r['result'], error=r['error'] and dict(type=r['error']['type'], msg=r['error']['msg'][:200]),
                       orders=[{k: v for k, v in o.items()} for o in r['orders']],
                       trades=[{k: v for k, v in t.items()} for t in fin.get('trades', [])],
                       accounts=fin.get('accounts'), daily_balance=fin.get('daily_balance'), args_modified=r.get('args_modified'))
    # arguments of EARLIER calls must still be what the caller passed after all later calls have run
    for i, (live, frozen) in enumerate(held):
        now = session._freeze(live)
        bad = [k for k in now if now[k] != frozen[k]]
        if bad:
            late.append(dict(call=i, of=len(held), modified=bad))
    real_stdout.write(json.dumps(clean(dict(probe=out, summaries=summaries, late_arg_mutations=late))))
    real_stdout.flush()


if __name__ == '__main__':
    main()
