"""C03 - futures account always equals an average-cost margin account model."""
from fractions import Fraction as F

RULE = ("Hypothesis-generated operation histories on a real futures session state (bench driver, 1-2 symbols sharing one "
        "wallet, leverage 1..125, cross margin, fee drawn): submit buy/sell x MARKET/LIMIT/STOP with sizes drawn relative to "
        "the margin boundary (0.1x .. 1.01x of available_margin x leverage / price, exactly 1.0x) or to the open position "
        "(0.5x, 1x, 1.5x = oversize, 2x = flip) or literal decimals; reduce-only orders only against an open position on its "
        "closing side; cancel(any active); execute(any active); move price; submit-then-cancel. After every operation wallet "
        "balance, position size/side, average entry, unrealised PnL and available margin are compared with the FuturesAccount "
        "reference fed from the observed submit/cancel/fill events; InsufficientMargin is required exactly when notional/"
        "leverage exceeds the reference's available margin (1e-9 relative band around equality accepts either); "
        "submit-then-cancel must restore the available margin exactly (==). A rejected submission ends the history. In addition "
        "every generated futures session (session driver, both simulators, cross and isolated, incl. liquidations, flips and "
        "forced closes) is replayed into the same reference account from its trace and compared at every strategy hook. "
        "distinct = digest of config + op list; non-trivial = the history contains a reduction or close after an increase, a "
        "flip, a cancellation of a resting order, or a rejection.")
ASSUMPTIONS = [
    "values are compared with 1e-9 relative tolerance; quantities are read as the decimals their shortest repr denotes (as jesse's sum_floats does)",
    "the attached strategy layer cancels everything resting when a position closes; the reference is fed those observed cancellations",
    "MARKET orders are executed in the operation that submits them; a resting order is executed at its own price after the symbol's current price was moved to it",
    "cross margin only (isolated-margin liquidation is C09's subject)",
]
TECHNIQUE = "model-based testing: generated op histories against an average-cost margin account reference fed from observed order events"
MIN_NONTRIVIAL = {'quick': 400, 'thorough': 8000}
SYMS = ['BTC-USDT', 'ETH-USDT']
TOL = F(1, 10 ** 9)


def close_enough(a, b, tol=TOL):
    a, b = F(a), F(b)
    return abs(a - b) <= tol * max(1, abs(a), abs(b))


def run_history(cfg, ops):
    from vf.drive.bench import Bench
    from vf.ref.accounts import FuturesAccount, fr
    from jesse.exceptions import InsufficientMargin
    syms = SYMS[:cfg['nsym']]
    prices = {s: 100.0 if i == 0 else 25.5 for i, s in enumerate(syms)}
    b = Bench('futures', cfg['fee'], cfg['balance'], cfg['leverage'], 'cross', symbols=syms, prices=prices)
    model = FuturesAccount(cfg['balance'], cfg['fee'], cfg['leverage'])
    for s in syms:
        model.price[s] = fr(prices[s])
    vios, flags, applied = [], set(), []
    seen = 0
    live = []
    increased = set()
    last_fill_tag = ['']
    tainted = [False]
    exact = [True]  # all order quantities so far have at most 10 significant decimal digits

    def feed():
        nonlocal seen
        evs = b.rec.events
        while seen < len(evs):
            e = evs[seen]
            seen += 1
            if e['ev'] == 'submit':
                model.submit(e['ord'], e['symbol'], e['side'], e['qty'], e['price'], e['reduce_only'])
            elif e['ev'] == 'cancel' and e['before'] == 'ACTIVE' and e['after'] == 'CANCELED':
                if e['ord'] in model.resting:
                    model.cancel(e['ord'])
                    flags.add('cancel-of-resting-order')
            elif e['ev'] == 'execute' and e.get('phase') == 'end' and e['before'] == 'ACTIVE' and e['after'] == 'EXECUTED':
                if e['ord'] in model.resting:
                    sym, side, q, price, ro = model.resting[e['ord']]
                    pos = model.q(sym)
                    oversize_ro = ro and pos != 0 and (pos > 0) != (q > 0) and abs(q) > abs(pos)
                    model.fill(e['ord'])
                    eff = model.last_effect
                    last_fill_tag[0] = ':oversize-reduce-only' if oversize_ro else (':flip' if eff == 'flip' else '')
                    if eff == 'increase':
                        increased.add(sym)
                    if eff in ('reduce', 'close') and sym in increased:
                        flags.add('reduce-or-close-after-increase')
                    if eff == 'flip':
                        flags.add('flip')
                        if any(o[0] == sym and o[4] for o in model.resting.values()):
                            # jesse does not cancel the resting exits on a flip (C06 known finding); the property quantifies over
                            # histories in which everything resting is cancelled when a position closes: stop judging this history
                            tainted[0] = True
                    if oversize_ro:
                        flags.add('oversize-reduce-only')
                    if eff in ('close', 'flip'):
                        increased.discard(sym)

    def compare(what):
        tag = last_fill_tag[0]
        ex = b.exchange
        if not close_enough(fr(ex.wallet_balance), model.wallet):
            vios.append((f'C03:wallet-balance{tag}', f'after {what}: wallet {ex.wallet_balance!r} vs reference {float(model.wallet)!r}'))
        for s in syms:
            p = b.positions[s]
            if exact[0] and float(model.q(s)) != p.qty:
                # every quantity so far was a short decimal: decimal-exact bookkeeping must reproduce the size exactly
                # (in particular flat must be flat: a 1e-17 'dust' position is an open position with an entry price)
                vios.append((f'C03:position-size-not-decimal-exact{tag}', f'after {what}: {s} qty {p.qty!r} vs reference {float(model.q(s))!r}'))
            elif not close_enough(fr(p.qty), model.q(s)):
                vios.append((f'C03:position-size{tag}', f'after {what}: {s} qty {p.qty!r} vs reference {float(model.q(s))!r}'))
            elif model.q(s) != 0:
                if p.entry_price is None or not close_enough(fr(p.entry_price), model.entry[s]):
                    vios.append((f'C03:average-entry{tag}', f'after {what}: {s} entry {p.entry_price!r} vs reference {float(model.entry[s])!r}'))
                if not close_enough(fr(p.pnl), model.upnl(s)):
                    vios.append((f'C03:unrealised-pnl{tag}', f'after {what}: {s} pnl {p.pnl!r} vs reference {float(model.upnl(s))!r}'))
        if not vios and not close_enough(fr(ex.available_margin), model.available_margin()):
            vios.append((f'C03:available-margin{tag}', f'after {what}: available margin {ex.available_margin!r} vs reference {float(model.available_margin())!r}'))

    def submit(s, side, typ, qty, price, ro, what):
        """-> order or None (rejected -> history ends) ; appends violations."""
        lhs, rhs = model.accepts(qty, price)
        ambiguous = abs(lhs - rhs) <= TOL * max(1, abs(rhs))
        try:
            o = b.order(s, side, typ, qty, price, reduce_only=ro)
        except InsufficientMargin:
            flags.add('rejection')
            if ro:
                vios.append((f'C03:{what}:reduce-only-order-rejected-for-margin', f'{side} {typ} {qty!r}@{price!r}'))
            elif not (lhs > rhs) and not ambiguous:
                vios.append((f'C03:{what}:rejected-although-margin-suffices', f'{side} {typ} {qty!r}@{price!r}: needs {float(lhs)!r}, available margin {float(rhs)!r}'))
            return None
        if not ro and lhs > rhs and not ambiguous:
            vios.append((f'C03:{what}:accepted-although-margin-insufficient', f'{side} {typ} {qty!r}@{price!r}: needs {float(lhs)!r}, available margin {float(rhs)!r}'))
        if ambiguous:
            flags.add('boundary-ambiguous')
        return o

    try:
        for op in ops:
            kind = op[0]
            last_fill_tag[0] = ''
            if kind == 'price':
                s = syms[op[1] % len(syms)]
                newp = max(0.1, round(b.positions[s].current_price + op[2] * 0.1, 1))
                b.set_price(s, newp)
                model.price[s] = fr(newp)
                applied.append(op)
                what = 'move-price'
            elif kind in ('submit', 'submit_cancel'):
                _, si, side, typ, size_code, poff, want_ro = op
                s = syms[si % len(syms)]
                cur = b.positions[s].current_price
                price = cur if typ == 'MARKET' else max(0.1, round(cur + poff * 0.1, 1))
                pos = model.q(s)
                closing_side = None if pos == 0 else ('sell' if pos > 0 else 'buy')
                ro = bool(want_ro and closing_side == side)
                if isinstance(size_code, str) and size_code.startswith('pos'):
                    if pos == 0:
                        continue
                    qty = float(abs(pos)) * float(size_code[3:])
                    side = closing_side
                    ro = bool(want_ro)
                elif isinstance(size_code, str):
                    qty = float(size_code)
                else:
                    am = float(model.available_margin())
                    qty = max(am, 0) * cfg['leverage'] / price * size_code
                    if size_code != 1.0:
                        qty = float(f'{qty:.6f}')
                if qty <= 0:
                    continue
                if len(repr(qty).replace('.', '').replace('-', '').strip('0')) > 10 or 'e' in repr(qty):
                    exact[0] = False
                what = f"{kind}-{side}-{typ}{'-reduce-only' if ro else ''}"
                applied.append(list(op))
                if kind == 'submit_cancel':
                    if typ == 'MARKET':
                        continue
                    before = b.exchange.available_margin
                    o = submit(s, side, typ, qty, price, ro, what)
                    if o is None or vios:
                        break
                    feed()
                    o.cancel()
                    feed()
                    after = b.exchange.available_margin
                    if after != before:
                        vios.append(('C03:submit-then-cancel:available-margin-not-restored', f'{before!r} -> {after!r} after submitting and cancelling {side} {typ} {qty!r}@{price!r}'))
                else:
                    o = submit(s, side, typ, qty, price, ro, what)
                    if o is None or vios:
                        break
                    live.append(o)
                    if typ == 'MARKET':
                        feed()
                        o.execute()
            elif kind == 'twin':
                # a second order with the same symbol, side, type, quantity and price as a resting one, reduce-only flag inverted when possible
                act = [o for o in live if o.is_active and o.type != 'MARKET']
                if not act:
                    continue
                o0 = act[op[1] % len(act)]
                s = o0.symbol
                pos = model.q(s)
                closing_side = None if pos == 0 else ('sell' if pos > 0 else 'buy')
                ro = bool((not o0.reduce_only) and closing_side == o0.side) if op[2] else bool(o0.reduce_only and closing_side == o0.side)
                what = f"twin-{o0.side}-{o0.type}{'-reduce-only' if ro else ''}"
                applied.append(op)
                flags.add('twin-order' + (':reduce-only-beside-regular' if ro != bool(o0.reduce_only) else ''))
                o = submit(s, o0.side, o0.type, abs(o0.qty), o0.price, ro, what)
                if o is None or vios:
                    break
                live.append(o)
            elif kind in ('cancel', 'execute'):
                act = [o for o in live if o.is_active]
                if not act:
                    continue
                o = act[op[1] % len(act)]
                applied.append(op)
                what = kind + '-' + o.side + '-' + o.type
                if kind == 'cancel':
                    o.cancel()
                else:
                    b.set_price(o.symbol, o.price)
                    model.price[o.symbol] = fr(o.price)
                    o.execute()
            else:
                raise ValueError(kind)
            feed()
            if tainted[0]:
                flags.add('reduce-only-order-survived-a-flip')
            compare(what)
            if vios:
                break
    except Exception as e:  # noqa
        import traceback
        vios.append((f'C03:raised-{type(e).__name__}', traceback.format_exc()[-700:]))
    finally:
        b.close()
    return vios, flags, applied


def session_replay(spec):
    """Every futures session of the session driver replayed into the reference account from its trace (fills and resting
    orders in trace order) and compared at every strategy hook."""
    from vf.drive import session
    from vf.ref.accounts import FuturesAccount, fr
    r = session.run(spec, obs='light')
    cfg = spec['cfg']
    sim = 'fast' if spec.get('fast') else 'step'
    model = FuturesAccount(cfg['balance'], cfg['fee'], cfg['leverage'])
    vios, flags = [], set()
    for e in r['trace']:
        if e['ev'] == 'submit':
            model.submit(e['ord'], e['sym'], e['side'], e['qty'], e['price'], e['reduce_only'])
        elif e['ev'] == 'cancel' and e['before'] == 'ACTIVE' and e['ord'] in model.resting:
            model.cancel(e['ord'])
        elif e['ev'] == 'execute' and e['before'] == 'ACTIVE' and e['ord'] in model.resting:
            sym_ = model.resting[e['ord']][0]
            model.fill(e['ord'])
            flags.add('fill:' + str(model.last_effect))
            if e['phase'] == 'liquidation':
                flags.add('liquidation-fill')
            if model.last_effect == 'flip' and any(o[0] == sym_ and o[4] for o in model.resting.values()):
                flags.add('reduce-only-order-survived-a-flip')
        elif e['ev'] == 'hook' and 'accounts' in e:
            acc_ = e['accounts']
            for sym, p in acc_['positions'].items():
                if p['cur'] is not None:
                    model.price[sym] = fr(p['cur'])
            where = f"hook {e['name']} idx={e['idx']} phase={e['phase']}"
            if not close_enough(fr(acc_['assets']['USDT']), model.wallet):
                vios.append((f'C03:session:sim={sim}:wallet-balance', f"{where}: wallet {acc_['assets']['USDT']!r} vs reference {float(model.wallet)!r}"))
            for sym, p in acc_['positions'].items():
                if not close_enough(fr(p['qty']), model.q(sym)):
                    vios.append((f'C03:session:sim={sim}:position-size', f"{where}: {sym} qty {p['qty']!r} vs reference {float(model.q(sym))!r}"))
                elif model.q(sym) != 0 and (p['entry'] is None or not close_enough(fr(p['entry']), model.entry[sym])):
                    vios.append((f'C03:session:sim={sim}:average-entry', f"{where}: {sym} entry {p['entry']!r} vs reference {float(model.entry[sym])!r}"))
            if not vios and e['sym'] in acc_['positions'] and not close_enough(fr(e['margin']), model.available_margin()):
                vios.append((f'C03:session:sim={sim}:available-margin', f"{where}: available margin {e['margin']!r} vs reference {float(model.available_margin())!r}"))
            if vios:
                break
    return vios, flags, r


def replay(case):
    if case.get('kind') == 'session':
        return session_replay(case['spec'])[0]
    return run_history(case['cfg'], [tuple(o) for o in case['ops']])[0]


def run_shard(acc, shard, nshards, seed, tier):
    from hypothesis import strategies as st
    from vf import runner
    known = runner.known_signatures('C03')
    sizes = st.sampled_from([0.1, 0.25, 0.3, 0.5, 0.1, 0.25, 0.3, 0.5, 0.99, 1.0, 1.01, '0.1', '0.3', '0.7', '1.1', '0.00000007',
                             'pos0.5', 'pos0.5', 'pos1', 'pos1', 'pos1.5', 'pos2', 'pos0.25', 'pos0.3333333333333333'])
    sub = lambda k: st.tuples(st.just(k), st.integers(0, 1), st.sampled_from(['buy', 'sell']),
                              st.sampled_from(['MARKET', 'MARKET', 'LIMIT', 'STOP']), sizes, st.integers(-30, 30), st.booleans())
    op = st.one_of(sub('submit'), sub('submit'), sub('submit'), sub('submit_cancel'), st.tuples(st.just('cancel'), st.integers(0, 9)),
                   st.tuples(st.just('twin'), st.integers(0, 9), st.booleans()),
                   st.tuples(st.just('execute'), st.integers(0, 9)), st.tuples(st.just('execute'), st.integers(0, 9)),
                   st.tuples(st.just('price'), st.integers(0, 1), st.integers(-40, 40)))
    cfgs = st.fixed_dictionaries(dict(fee=st.sampled_from([0.0, 0.0004, 0.001, 0.0075]), balance=st.sampled_from([10_000.0, 1_000.0, 250.5]),
                                       leverage=st.sampled_from([1, 2, 3, 5, 10, 20, 50, 100, 125]), nsym=st.integers(1, 2)))
    strat = st.tuples(cfgs, st.lists(op, min_size=3, max_size=30 if tier == 'quick' else 60))

    def chk(case):
        cfg, ops = case
        vios, flags, applied = run_history(cfg, ops)
        nt = bool(flags & {'reduce-or-close-after-increase', 'flip', 'cancel-of-resting-order', 'rejection'})
        d = dict(cfg=cfg, ops=applied)
        return dict(key=d, nontrivial=nt, classes=sorted(flags), sample=d if len(applied) < 9 else None, violations=vios)
    runner.hyp_search(acc, strat, lambda c: dict(chk(c), sub='bench-histories'), 400 if tier == 'quick' else 8000, seed, tier, known=known,
                      describe=lambda c: dict(cfg=c[0], ops=[list(o) for o in c[1]]))

    from vf.gen import sessions
    sess = sessions.session(minutes=(60, 180) if tier == 'quick' else (60, 400), kinds=('futures',), modes=('cross', 'cross', 'isolated'), max_data=0, warmup=(False,),
                            align_len=True, leverages=(1, 2, 5, 10, 25, 100), program=dict(busy=True, oversize=True, flips=True))

    def chk_s(spec):
        vios, flags, r = session_replay(spec)
        nt = bool(flags & {'fill:reduce', 'fill:close', 'fill:flip'})
        return dict(key=('s', spec['cfg'], spec['routes'], spec['scripts'], spec['candles'], spec['fast']), nontrivial=nt,
                    classes=['session:' + f for f in sorted(flags)] + ['session:' + ('fast' if spec['fast'] else 'step'), 'session:' + spec['cfg']['mode']],
                    violations=vios, sub='session-replay',
                    sample=dict(cfg=spec['cfg'], routes=spec['routes'], fast=spec['fast'], minutes=spec['n'], orders=len(r['orders'])) if nt else None)
    runner.hyp_search(acc, sess, chk_s, 24 if tier == 'quick' else 800, seed + 11, tier, known=known, shrink_calls=15, max_shrink_sigs=1,
                      describe=lambda spec: dict(kind='session', spec=spec))
