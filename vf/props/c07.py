"""C07 - every timeframe is the exact aggregation of the one-minute candles."""
import math

RULE = ("Hypothesis-generated sessions over all timeframe combinations (trading 1m/3m/5m/15m x data routes 3m..1h, 1-2 symbols, "
        "session lengths deliberately NOT multiples of the largest timeframe in the step simulator, warm-up on/off, both "
        "simulators, fills inside forming windows). At EVERY hook invocation (before/after/update_position/on_* - i.e. also "
        "mid-minute during a fill) and after the run, for every (symbol, timeframe) a strategy can read, get_candles(tf) must "
        "equal aggregate(get_candles('1m'), tf) row for row (timestamp-aligned windows: start, first open, last close, max "
        "high, min low exact; volume sum at 1e-9), with exactly ceil(n_1m / tf) rows; self.candles must be that array for "
        "the trading timeframe and current_candle its last row; a read that raises is a violation. The stored 1m rows must "
        "equal the input rows or their documented normalisation (open := previous close, high/low widened), the newest row "
        "possibly a partial candle during a fill. Plus direct Hypothesis tests of generate_candle_from_one_minutes and "
        "_get_generated_candles against the same reference aggregator. distinct = digest of (candles, routes, scripts); "
        "non-trivial = an observation taken while a higher-timeframe window is forming after a fill inside that window, or "
        "with warm-up present, or in fast mode.")
ASSUMPTIONS = [
    "session start and warm-up length are aligned to every route timeframe (jesse's loader guarantees it; stated in the property)",
    "the reference aggregates by timestamp: window start = ts - ts % (tf minutes)",
    "volume sums are compared at 1e-9 relative; everything else exactly",
]
TECHNIQUE = "differential testing of every readable candle array against a reference aggregator at every strategy hook of generated sessions"
MIN_NONTRIVIAL = {'quick': 60, 'thorough': 3000}
MIN = 60_000
TFM = {'1m': 1, '3m': 3, '5m': 5, '15m': 15, '30m': 30, '45m': 45, '1h': 60, '2h': 120, '3h': 180, '4h': 240}


def aggregate(rows, tf):
    k = TFM[tf] * MIN
    out, cur = [], None
    for r in rows:
        start = r[0] - r[0] % k
        if cur is None or cur[0] != start:
            if cur is not None:
                out.append(cur)
            cur = [start, r[1], r[2], r[3], r[4], r[5]]
        else:
            cur[2] = r[2]
            cur[3] = max(cur[3], r[3])
            cur[4] = min(cur[4], r[4])
            cur[5] += r[5]
    if cur is not None:
        out.append(cur)
    return out


def rows_equal(a, b):
    if len(a) != len(b):
        return f'{len(a)} rows, the 1m candles aggregate to {len(b)}'
    for i, (x, y) in enumerate(zip(a, b)):
        if list(x[:5]) != list(y[:5]) or abs(x[5] - y[5]) > 1e-9 * max(1.0, abs(y[5])):
            return f'row {i} of {len(a)} is {list(x)} but the 1m candles of its window aggregate to {list(y)}'
    return None


def check_obs(cands, readable, where, vios, sim, self_candles=None, current=None, trading=None):
    """cands: dict 'sym|tf' -> rows or {'error':..}"""
    flags = set()
    for sym, tf in readable:
        key = f'{sym}|{tf}'
        got = cands.get(key)
        one = cands.get(f'{sym}|1m')
        if isinstance(got, dict):
            kind = got['error'].split(':')[0]
            vios.append((f'C07:sim={sim}:read-raised-{kind}:tf={tf}', f'{where}: get_candles({sym}, {tf}) raised {got["error"]}'))
            continue
        if isinstance(one, dict) or one is None or tf == '1m':
            continue
        want = aggregate(one, tf)
        d = rows_equal(got, want)
        if d:
            last = (len(got) == len(want) and got[:-1] == want[:-1])
            forming = len(one) % TFM[tf] != 0
            vios.append((f"C07:sim={sim}:{'forming' if (last and forming) else 'completed'}-candle-differs:tf={tf}", f'{where}: get_candles({sym}, {tf}): {d}'))
    if trading and self_candles is not None:
        sym, tf = trading
        got = cands.get(f'{sym}|{tf}')
        if isinstance(self_candles, dict):
            vios.append((f'C07:sim={sim}:self.candles-raised', f'{where}: {self_candles}'))
        elif not isinstance(got, dict) and got is not None:
            if self_candles != got:
                vios.append((f'C07:sim={sim}:self.candles-differs-from-get_candles', f'{where}: {sym} {tf}'))
            if current is not None and got and list(current) != list(got[-1]):
                vios.append((f'C07:sim={sim}:current_candle-differs-from-last-row', f'{where}: {current} vs {got[-1]}'))
    return flags


def check_run(spec, r):
    from vf.drive.bench import T0
    vios = []
    sim = 'fast' if spec.get('fast') else 'step'
    flags = set()
    readable = sorted({(x['symbol'], x['timeframe']) for x in spec['routes'] + spec.get('data', [])})
    trading = {x['symbol']: x['timeframe'] for x in spec['routes']}
    last_fill_t = {}
    for e in r['trace']:
        if e['ev'] == 'executed' and e.get('after') == 'EXECUTED':
            last_fill_t[e['sym']] = e['t']
        if e['ev'] != 'hook' or 'candles' not in e:
            continue
        where = f"hook {e['name']} idx={e['idx']} t=+{(e['t'] - T0) // MIN}m phase={e['phase']}"
        n_before = len(vios)
        check_obs(e['candles'], readable, where, vios, sim, e.get('self_candles'), e.get('current_candle'), (e['sym'], trading[e['sym']]))
        # classification
        for sym, tf in readable:
            one = e['candles'].get(f'{sym}|1m')
            if isinstance(one, list) and tf != '1m' and len(one) % TFM[tf] != 0 and sym in last_fill_t:
                win_start = one[-1][0] - one[-1][0] % (TFM[tf] * MIN)
                if last_fill_t[sym] - MIN >= win_start:
                    flags.add('forming-window-after-fill')
        if e['phase'] == 'match':
            flags.add('observed-mid-fill')
        if len(vios) > n_before + 6:
            break
    if spec.get('warmup'):
        flags.add('warmup')
    if spec.get('fast'):
        flags.add('fast')
    if r['final'] and r['final'].get('candles'):
        check_obs(r['final']['candles'], readable, 'after the run', vios, sim)
        # stored 1m rows vs input rows (documented normalisation allowed)
        for sym, rows in spec['candles'].items():
            got = r['final']['candles'].get(f'{sym}|1m')
            if not isinstance(got, list):
                continue
            w = len(spec['warmup'][sym]) if spec.get('warmup') else 0
            inp = (spec['warmup'][sym] if spec.get('warmup') else []) + rows
            if len(got) != len(inp):
                vios.append((f'C07:sim={sim}:stored-1m-count', f'{sym}: {len(got)} stored rows for {len(inp)} input rows'))
                continue
            for i in range(len(inp)):
                a, b = got[i], inp[i]
                if list(a) == list(b):
                    continue
                pc = got[i - 1][2] if i > 0 else None
                norm = [b[0], pc, b[2], max(b[3], pc), min(b[4], pc), b[5]] if (pc is not None and i != w) else None
                if norm is not None and list(a) == norm:
                    flags.add('normalised-gap')
                    continue
                if pc is not None and i == w:
                    norm2 = [b[0], pc, b[2], max(b[3], pc), min(b[4], pc), b[5]]
                    if list(a) == norm2:
                        continue
                vios.append((f'C07:sim={sim}:stored-1m-row-differs-from-input', f'{sym} row {i}: stored {list(a)}, input {list(b)}, previous close {pc}'))
                break
    if r['error'] and r['error']['type'] not in ('InsufficientMargin', 'InsufficientBalance', 'InvalidStrategy', 'OrderNotAllowed', 'Watchdog'):
        vios.append((f"C07:sim={sim}:session-raised-{r['error']['type']}", r['error']['msg'][:200] + ' ' + r['error']['tb'][-300:]))
    return vios, flags


def run_case(spec):
    from vf.drive import session
    r = session.run(spec, obs='candles')
    vios, flags = check_run(spec, r)
    return vios, flags, r


def direct_case(c):
    """generate_candle_from_one_minutes and _get_generated_candles against the reference."""
    import numpy as np
    from jesse.services.candle import generate_candle_from_one_minutes, _get_generated_candles
    from vf.gen import candles as gc
    rows = gc.prng_rows(c['seed'], c['n'], 0.5, 400, vol=3, gap_p=0.2)
    arr = np.array(rows)
    tf = c['tf']
    k = TFM[tf]
    vios = []
    want = aggregate(rows, tf)
    full = [w for i, w in enumerate(want) if (i + 1) * k <= len(rows)]
    try:
        got = _get_generated_candles(tf, arr)
        d = rows_equal([list(map(float, g)) for g in got], full)
        if d:
            vios.append((f'C07:_get_generated_candles:tf={tf}', d))
    except Exception as e:  # noqa
        vios.append((f'C07:_get_generated_candles:raised-{type(e).__name__}', repr(e)))
    m = c['part']
    if 1 <= m <= len(rows):
        sl = rows[:m][- (m % k or k):] if False else rows[(m - 1) // k * k: m]
        g = generate_candle_from_one_minutes(tf, np.array(sl), accept_forming_candles=True)
        w = aggregate(sl, tf)[0]
        d = rows_equal([list(map(float, g))], [w])
        if d:
            vios.append((f'C07:generate_candle_from_one_minutes:tf={tf}', d))
        if len(sl) != k:
            try:
                generate_candle_from_one_minutes(tf, np.array(sl), accept_forming_candles=False)
                vios.append((f'C07:generate_candle_from_one_minutes:accepts-incomplete-window', f'{len(sl)} candles for {tf}'))
            except ValueError:
                pass
    return vios


def replay(case):
    if case.get('kind') == 'direct':
        return direct_case(case)
    return run_case(case['spec'])[0]


def run_shard(acc, shard, nshards, seed, tier):
    from hypothesis import strategies as st
    from vf import runner
    from vf.gen import sessions
    known = runner.known_signatures('C07')
    mins = (40, 130) if tier == 'quick' else (40, 400)
    step = sessions.session(minutes=mins, fast=(False,), align_len=False, program=dict(busy=True), data_tfs=('3m', '5m', '15m', '30m', '1h'), min_steps=3, logs=(False, False, True))
    fast = sessions.session(minutes=mins, fast=(True,), align_len=True, program=dict(busy=True), data_tfs=('3m', '5m', '15m', '30m', '1h'), min_steps=3, logs=(False, False, True))
    fast_odd = sessions.session(minutes=mins, fast=(True,), align_len=False, program=dict(busy=True), data_tfs=('3m', '5m', '15m'), min_steps=3, logs=(False, False, True))

    def chk(spec):
        vios, flags, r = run_case(spec)
        nt = bool(flags & {'forming-window-after-fill', 'warmup', 'fast'})
        tfs = sorted({x['timeframe'] for x in spec['routes'] + spec['data']})
        cl = ['sim:' + ('fast' if spec['fast'] else 'step')] + sorted(flags) + (['debug-logs'] if spec.get('logs') else []) + ['tfs:' + '+'.join(tfs)]
        key = (spec['cfg'], spec['routes'], spec['data'], spec['scripts'], spec['candles'], spec['fast'])
        return dict(key=key, nontrivial=nt, classes=cl, violations=vios,
                    sample=dict(routes=spec['routes'], data=spec['data'], minutes=spec['n'], fast=spec['fast'], warm_up=spec['cfg']['warm_up'],
                                hooks_observed=sum(1 for e in r['trace'] if e['ev'] == 'hook')) if nt else None)
    for name, s_, n in (('step', step, 18), ('fast', fast, 12), ('fast-odd-length', fast_odd, 6)):
        runner.hyp_search(acc, s_, lambda spec, name=name: dict(chk(spec), sub=name), n if tier == 'quick' else n * 70, seed + len(name), tier,
                          known=known, shrink_calls=15, max_shrink_sigs=1, describe=lambda spec: dict(spec=spec))
    direct = st.fixed_dictionaries(dict(kind=st.just('direct'), seed=st.integers(0, 2 ** 31), n=st.integers(1, 400),
                                        tf=st.sampled_from(list(TFM)), part=st.integers(1, 400)))
    runner.hyp_search(acc, direct, lambda c: dict(key=c, nontrivial=c['n'] % TFM[c['tf']] != 0, classes=['direct:' + c['tf']], violations=direct_case(c),
                                                   sub='direct-helpers', sample=None), 60 if tier == 'quick' else 3000, seed + 99, tier, known=known)
