"""C09 - isolated-margin liquidation happens exactly at the liquidation price."""
import math

RULE = ("(a) constructed boundary cases on a real isolated-margin futures session state (bench driver): leverage from "
        "{1,2,3,5,10,20,50,100,125} or drawn, long/short, single or averaged (2-3 fills) entry, 0-3 resting orders (protective "
        "stop before / beyond the liquidation price, partial or full; take-profit), then one minute (or a fast-mode chunk of "
        "2-5 minutes with the extreme in a drawn minute) whose losing-side extreme is placed relative to the liquidation "
        "price Lq recomputed by the oracle: Lq + k ticks for k in -3..3, exactly Lq (touch), nextafter(Lq) away from it (miss "
        "by one ulp), or far beyond it; the minute is run through the simulator's own matching entry point. (b) Hypothesis "
        "sessions with isolated margin and high leverage through research.backtest (both simulators), plus cross-margin and "
        "spot control sessions on the same generator. Oracle at every liquidation check: if the position is still open after "
        "matching and the (input) range contains Lq => exactly one new order, MARKET, reduce-only, closing side, quantity = "
        "position size, price = bankruptcy price entry x (1 -+ 1/L), executed at once, total_liquidations + 1, position closed, "
        "wallet change = -|qty| x entry / L - fee x |qty| x bankruptcy, every resting order of the symbol cancelled, one more "
        "closed trade; otherwise => the check creates no order. Cross / spot => never. Formula law: Lq strictly between entry "
        "and bankruptcy on the losing side for every leverage > 1. distinct = digest of the case; non-trivial = the "
        "liquidation price lies within 5 ticks of the candle extreme (touch or near miss) or a liquidation happened.")
ASSUMPTIONS = [
    "Lq = entry x (1 - 1/L + 0.004) for longs and entry x (1 + 1/L - 0.004) for shorts (the documented Bybit-style formula), evaluated by the oracle in doubles in the same order of operations",
    "the candle the check must use is the input minute (normalised to the previous close) or, in fast mode, the aggregate of the chunk's input minutes",
    "wallet change compared at 1e-9 relative",
]
TECHNIQUE = "boundary-directed construction (touch / one-ulp miss / gap) on a real session state + Hypothesis sessions, judged at every liquidation check by an independent oracle"
MIN_NONTRIVIAL = {'quick': 300, 'thorough': 8000}
MIN = 60_000


def liq_price(entry, lev, long):
    r = 1 / lev
    return entry * (1 - r + 0.004) if long else entry * (1 + r - 0.004)


def bankruptcy(entry, lev, long):
    r = 1 / lev
    return entry * (1 - r) if long else entry * (1 + r)


def judge_check(ev, orders, rng, fee, mode, sim):
    """ev: liq-check trace event; orders: recorder order dicts; rng: (low, high) of the input candle(s)."""
    vios, flags = [], set()
    b, a = ev['before'], ev['after']
    new_orders = orders[b['n_orders']:a['n_orders']]
    if b['qty'] == 0 or mode != 'isolated':
        if new_orders or a['n_liq'] != b['n_liq']:
            vios.append((f'C09:sim={sim}:liquidation-without-isolated-open-position:mode={mode}', f"position {b['qty']}, mode {mode}: orders {new_orders}"))
        return vios, flags
    long = b['qty'] > 0
    lev = b['lev']
    lq = liq_price(b['entry'], lev, long)
    bk = bankruptcy(b['entry'], lev, long)
    if b['liq'] is not None and b['liq'] != lq:
        vios.append((f'C09:sim={sim}:liquidation-price-formula', f"position.liquidation_price {b['liq']!r}, formula gives {lq!r} (entry {b['entry']!r}, leverage {lev}, {'long' if long else 'short'})"))
    lo, hi = rng
    inside = lo <= lq <= hi
    if inside:
        flags.add('liquidated')
        tag = 'long' if long else 'short'
        if len(new_orders) != 1:
            vios.append((f'C09:sim={sim}:not-liquidated-although-range-contains-liquidation-price:{tag}',
                         f"range [{lo!r}, {hi!r}] contains Lq {lq!r} (entry {b['entry']!r}, leverage {lev}, qty {b['qty']!r}) but the check created {len(new_orders)} orders"))
            return vios, flags
        o = new_orders[0]
        want_side = 'sell' if long else 'buy'
        if o['type'] != 'MARKET' or not o['reduce_only'] or o['side'] != want_side:
            vios.append((f'C09:sim={sim}:liquidation-order-shape', f"{o}"))
        if abs(o['qty']) != abs(b['qty']):
            vios.append((f'C09:sim={sim}:liquidation-order-quantity', f"order qty {o['qty']!r}, position {b['qty']!r}"))
        if abs(o['price'] - bk) > 1e-9 * bk:
            vios.append((f'C09:sim={sim}:liquidation-fill-not-at-bankruptcy-price', f"fill price {o['price']!r}, bankruptcy price {bk!r} (liquidation price {lq!r})"))
        if o['status'] != 'EXECUTED':
            vios.append((f'C09:sim={sim}:liquidation-order-not-executed-at-once', f"{o['status']}"))
        if a['n_liq'] != b['n_liq'] + 1:
            vios.append((f'C09:sim={sim}:total_liquidations-not-incremented', f"{b['n_liq']} -> {a['n_liq']}"))
        if a['qty'] != 0:
            vios.append((f'C09:sim={sim}:position-not-closed-by-liquidation', f"{a['qty']!r}"))
        want = -abs(b['qty']) * b['entry'] / lev - fee * abs(b['qty']) * bk
        got = a['wallet'] - b['wallet']
        if abs(got - want) > 1e-9 * max(1.0, abs(want)):
            vios.append((f'C09:sim={sim}:liquidation-loss-differs-from-initial-margin-plus-fee', f"wallet changed by {got!r}, initial margin + fee = {want!r}"))
        if a['still_active']:
            vios.append((f'C09:sim={sim}:resting-orders-survive-liquidation', f"{a['still_active']}"))
        if a['n_trades'] != b['n_trades'] + 1:
            vios.append((f'C09:sim={sim}:no-closed-trade-for-liquidation', f"{b['n_trades']} -> {a['n_trades']}"))
    else:
        if new_orders or a['n_liq'] != b['n_liq'] or a['qty'] != b['qty']:
            vios.append((f"C09:sim={sim}:liquidated-although-range-misses-liquidation-price:{'long' if long else 'short'}",
                         f"range [{lo!r}, {hi!r}] does not contain Lq {lq!r} (entry {b['entry']!r}, leverage {lev}) but orders {new_orders} / liquidations {b['n_liq']}->{a['n_liq']}"))
    tick = max(abs(lq) * 1e-4, 1e-12)
    if min(abs(lq - lo), abs(lq - hi)) <= 5 * tick:
        flags.add('near-boundary')
    return vios, flags


def order_dicts(rec):
    return [dict(ord=o._vf_ord, type=o.type, side=o.side, qty=float(o.qty), price=None if o.price is None else float(o.price),
                 reduce_only=bool(o.reduce_only), status=o.status) for o in rec.orders]


def bench_case(c):
    """c: dict(lev, long, fee, fills=[(qty, price)], rest=[(kind, frac, where)], place, k, chunk, extreme_at, tick)"""
    import numpy as np
    from vf.drive.bench import Bench, EX, T0
    from vf.drive import session as sess
    from jesse.modes import backtest_mode
    sym = 'BTC-USDT'
    p0 = c['fills'][0][1]
    balance = 1_000_000.0
    if c.get('allin'):
        # the position's margin is (almost) the whole wallet: the liquidation loss (margin + closing fee) exceeds what is left in it
        notional = sum(q * p for q, p in c['fills'])
        balance = float(f"{notional / c['lev'] * 1.003 + notional * c['fee'] * 1.2:.8g}")
    b = Bench('futures', c['fee'], balance, c['lev'], 'isolated', prices={sym: p0})
    ctx = sess.Ctx({}, 'off')
    ctx.recorder = b.rec
    sess.install_sim_wrappers()
    vios, flags = [], set()
    try:
        side = 'buy' if c['long'] else 'sell'
        from jesse.exceptions import InsufficientMargin
        try:
            for q, p in c['fills']:
                b.set_price(sym, p)
                b.order(sym, side, 'MARKET', q, p).execute()
        except InsufficientMargin:
            if not c.get('allin'):
                raise
            return [], {'all-in:entry-rejected'}
        if c.get('allin'):
            flags.add('all-in-position')
        pos = b.positions[sym]
        entry, qty = pos.entry_price, pos.qty
        lq = liq_price(entry, c['lev'], c['long'])
        bk = bankruptcy(entry, c['lev'], c['long'])
        if c['lev'] > 1 and not (min(entry, bk) < lq < max(entry, bk)):
            vios.append(('C09:formula:liquidation-price-not-between-entry-and-bankruptcy', f'entry {entry!r} lev {c["lev"]} lq {lq!r} bankruptcy {bk!r}'))
        if abs(pos.liquidation_price - lq) > 0 or abs(pos.bankruptcy_price - bk) > 1e-9 * bk:
            vios.append(('C09:formula:position-properties', f'liquidation_price {pos.liquidation_price!r} vs {lq!r}; bankruptcy_price {pos.bankruptcy_price!r} vs {bk!r}'))
        cur = c['fills'][-1][1]
        b.set_price(sym, cur)
        away = -1 if c['long'] else 1  # direction of loss
        tick = c['tick']
        # resting orders
        close_side = 'sell' if c['long'] else 'buy'
        for kind, frac, where in c['rest']:
            if kind == 'stop':
                price = (cur + lq) / 2 if where == 'before' else lq + away * 2 * tick
                typ = 'STOP'
            else:
                price = cur - away * abs(cur - lq) * 0.5
                typ = 'LIMIT'
            if price <= 0 or abs(price / cur - 1) < 0.001:
                continue
            b.order(sym, close_side, typ, abs(qty) * frac, float(price), reduce_only=True)
        # the minute(s)
        place = c['place']
        if place == 'touch':
            ext = lq
        elif place == 'ulp-miss':
            ext = math.nextafter(lq, cur)
        elif place == 'ulp-beyond':
            ext = math.nextafter(lq, lq + away)
        elif place == 'gap':
            ext = lq + away * abs(cur - lq) * 0.5
        else:
            ext = lq + c['k'] * tick
        if ext <= 0:
            return [], {'skipped'}
        n = c['chunk']
        rows = []
        prev = cur
        for i in range(n):
            ts = T0 + (b.minute + 1 + i) * MIN
            if i == c['extreme_at'] % n:
                o_, cl = prev, (prev + ext) / 2 if place != 'gap' else ext
                h, l = (max(o_, cl), min(o_, cl, ext)) if c['long'] else (max(o_, cl, ext), min(o_, cl))
            else:
                o_, cl = prev, prev
                h = l = prev
            rows.append([float(ts), o_, cl, h, l, 3.0])
            prev = cl
        start_ev = len(ctx.trace)
        sess.CURRENT[0] = ctx
        b.store.app.time = rows[0][0] + MIN
        try:
            if n == 1:
                candle = np.array(rows[0])
                b.store.candles.add_candle(candle, EX, sym, '1m', with_execution=False, with_generation=False)
                backtest_mode._simulate_price_change_effect(candle, EX, sym)
            else:
                backtest_mode._simulate_price_change_effect_multiple_candles(np.array(rows), EX, sym)
        finally:
            sess.CURRENT[0] = None
        checks = [e for e in ctx.trace[start_ev:] if e['ev'] == 'liq-check']
        sim = 'step' if n == 1 else 'fast'
        if len(checks) != 1:
            vios.append((f'C09:sim={sim}:liquidation-check-not-performed-once', f'{len(checks)} checks for one minute/chunk'))
        lo, hi = min(r[4] for r in rows), max(r[3] for r in rows)
        od = order_dicts(b.rec)
        for e in checks:
            v, f = judge_check(e, od, (lo, hi), c['fee'], 'isolated', sim)
            vios += v
            flags |= f
        flags.add('place:' + place)
    finally:
        b.close()
    return vios, flags


def session_case(spec):
    from vf.drive import session
    from vf.drive.bench import T0
    from vf.props.c02 import normalise
    r = session.run(spec, obs='off')
    sim = 'fast' if spec.get('fast') else 'step'
    mode = spec['cfg']['mode'] if spec['cfg']['type'] == 'futures' else 'spot'
    norm = {s: normalise(rows) for s, rows in spec['candles'].items()}
    vios, flags = [], set()
    pending = {}
    n_min = {}
    for e in r['trace']:
        if e['ev'] in ('minute', 'chunk'):
            k = 1 if e['ev'] == 'minute' else len(e['candles'])
            i0 = n_min.get(e['sym'], 0)
            pending[e['sym']] = (i0, k, False)
            n_min[e['sym']] = i0 + k
        elif e['ev'] == 'liq-check':
            i0, k, _ = pending.get(e['sym'], (0, 1, False))
            rows = norm[e['sym']][i0:i0 + k]
            rng = (min(x[3] for x in rows), max(x[2] for x in rows))
            v, f = judge_check(e, r['orders'], rng, spec['cfg']['fee'], mode, sim)
            vios += v
            flags |= f
            pending[e['sym']] = (i0, k, True)
        elif e['ev'] in ('minute-end', 'chunk-end'):
            i0, k, seen = pending.get(e['sym'], (0, 1, True))
            if not seen and r['error'] is None:
                vios.append((f'C09:sim={sim}:no-liquidation-check-after-matching', f"{e['sym']} minute {i0}"))
        elif e['ev'] == 'submit' and e['phase'] == 'liquidation' and mode != 'isolated':
            vios.append((f'C09:sim={sim}:liquidation-in-{mode}-mode', f"order {e['ord']}"))
    if r['final'] is not None and mode != 'isolated' and r['final']['total_liquidations'] != 0:
        vios.append((f'C09:sim={sim}:total_liquidations-nonzero-in-{mode}-mode', str(r['final']['total_liquidations'])))
    flags.add('mode:' + mode)
    return vios, flags, r


def replay(case):
    if case.get('kind') == 'session':
        return session_case(case['spec'])[0]
    return bench_case(case)[0]


def run_shard(acc, shard, nshards, seed, tier):
    from hypothesis import strategies as st
    from vf import runner
    from vf.gen import sessions
    known = runner.known_signatures('C09')
    levs = st.one_of(st.sampled_from([1, 2, 3, 5, 10, 20, 50, 100, 125]), st.integers(1, 125))
    price = st.one_of(st.sampled_from([100.0, 25000.0, 0.35, 1.0]), st.floats(0.01, 60000).map(lambda x: float(f'{x:.6g}')))

    @st.composite
    def cases(draw):
        p = draw(price)
        long = draw(st.booleans())
        nf = draw(st.sampled_from([1, 1, 2, 3]))
        fills = [(draw(st.sampled_from([1.0, 0.5, 2.0, 0.3])), p * (1 + 0.002 * i * (1 if draw(st.booleans()) else -1))) for i in range(nf)]
        rest = draw(st.lists(st.tuples(st.sampled_from(['stop', 'stop', 'tp']), st.sampled_from([0.5, 1.0, 0.25]), st.sampled_from(['before', 'beyond'])), max_size=3))
        return dict(kind='bench', lev=draw(levs), long=long, fee=draw(st.sampled_from([0.0, 0.0004, 0.001])), fills=fills, rest=rest,
                    place=draw(st.sampled_from(['touch', 'ulp-miss', 'ulp-beyond', 'gap', 'ticks', 'ticks', 'ticks'])), k=draw(st.integers(-3, 3)),
                    chunk=draw(st.sampled_from([1, 1, 1, 2, 3, 5])), extreme_at=draw(st.integers(0, 4)), tick=p * 1e-4,
                    allin=draw(st.sampled_from([False, False, True])))

    def chk(c):
        vios, flags = bench_case(c)
        nt = bool(flags & {'near-boundary', 'liquidated'})
        return dict(key=c, nontrivial=nt, classes=sorted(flags) + [f"lev:{'1' if c['lev'] == 1 else '2-10' if c['lev'] <= 10 else '11-125'}", 'long' if c['long'] else 'short',
                                                                   'averaged-entry' if len(c['fills']) > 1 else 'single-entry', f"resting={len(c['rest'])}", 'chunk' if c['chunk'] > 1 else 'minute'],
                    violations=vios, sub='constructed-boundary', sample=c if nt else None)
    runner.hyp_search(acc, cases(), chk, 250 if tier == 'quick' else 5000, seed, tier, known=known, shrink_calls=60)

    iso = sessions.session(minutes=(60, 200) if tier == 'quick' else (60, 400), kinds=('futures',), modes=('isolated',), leverages=(5, 10, 20, 50, 100, 125),
                           max_data=0, warmup=(False,), align_len=True, program=dict(busy=True, hold=True, cycle=True), structural=False)
    ctl = sessions.session(minutes=(60, 200), kinds=('futures', 'spot'), modes=('cross',), leverages=(10, 50, 125), max_data=0, warmup=(False,),
                           align_len=True, program=dict(busy=True, hold=True, cycle=True), structural=False)

    def chk_s(spec):
        vios, flags, r = session_case(spec)
        nt = bool(flags & {'near-boundary', 'liquidated'})
        return dict(key=(spec['cfg'], spec['scripts'], spec['candles'], spec['fast']), nontrivial=nt, classes=['session:' + f for f in sorted(flags)] + ['session:' + ('fast' if spec['fast'] else 'step')],
                    violations=vios, sub='sessions',
                    sample=dict(cfg=spec['cfg'], routes=spec['routes'], minutes=spec['n'], fast=spec['fast'], liquidations=(r['final'] or {}).get('total_liquidations')) if nt else None)
    runner.hyp_search(acc, iso, chk_s, 20 if tier == 'quick' else 800, seed + 1, tier, known=known, shrink_calls=12, max_shrink_sigs=1, describe=lambda s: dict(kind='session', spec=s))
    runner.hyp_search(acc, ctl, chk_s, 6 if tier == 'quick' else 200, seed + 2, tier, known=known, shrink_calls=8, max_shrink_sigs=1, describe=lambda s: dict(kind='session', spec=s))
