"""C01 - backtest decisions never depend on future candles (2-run hyperproperty)."""

RULE = ("Hypothesis-generated session pairs: a full session S (lattice candles with gaps/flats for 1-2 symbols, a ScriptedStrategy "
        "program per route, spot/futures, trading timeframe 1m..15m, 0-2 data routes 3m..1h, warm-up on/off, both simulators) is "
        "run on candles X and on X[:t] + Y[t:], where the cut minute t is drawn (fast mode: a multiple of the trading "
        "timeframe) and Y is an independently drawn tail for every symbol. Both traces are projected on the events stamped "
        "with simulated time <= T0 + t minutes (hook invocations with the candle arrays of every readable (symbol, timeframe), "
        "price, position, balance, margin; order submissions, cancellations, fills with all fields) and must be equal as "
        "sequences, floats compared exactly. distinct = digest of (X[:t], scripts, config); non-trivial = the common prefix "
        "contains at least one fill and the two full traces differ after t.")
ASSUMPTIONS = [
    "an event processed while minute i is the newest candle carries store.app.time = end of minute i, so the projection keeps exactly the events that may depend on candles ending before or at t",
    "session start and warm-up length are aligned to every route timeframe (jesse's loader guarantees that)",
    "the strategy is a deterministic function of its script and of what it can observe (ScriptedStrategy)",
    "fast mode is run with a session length that is a multiple of the chunk (see C07 for other lengths)",
]
TECHNIQUE = "metamorphic 2-run (non-interference) testing over generated sessions, cut points and replacement tails"
MIN_NONTRIVIAL = {'quick': 60, 'thorough': 3000}
MIN = 60_000


def project(trace, t_ms):
    out = []
    for e in trace:
        if e.get('t', 0) > t_ms:
            break
        if e['ev'] in ('minute-end', 'chunk-end'):
            continue
        if e['ev'] in ('minute', 'chunk'):
            continue  # input echo: the candles handed to the matcher are the inputs themselves (compared through hooks)
        d = {k: v for k, v in e.items() if k not in ('snap',)}
        out.append(d)
    return out


def first_diff(a, b):
    for i, (x, y) in enumerate(zip(a, b)):
        if x != y:
            keys = [k for k in set(x) | set(y) if x.get(k) != y.get(k)]
            return i, x, y, keys
    if len(a) != len(b):
        i = min(len(a), len(b))
        return i, (a[i] if i < len(a) else None), (b[i] if i < len(b) else None), ['<length>']
    return None


def run_pair(case):
    """case: dict(spec, cut, tails) -> (violations, info)"""
    import copy
    from vf.drive import session
    from vf.drive.bench import T0
    spec = case['spec']
    cut = case['cut']
    spec2 = copy.deepcopy(spec)
    for s, rows in spec2['candles'].items():
        tail = case['tails'][s]
        n = len(rows)
        new = [list(r) for r in rows[:cut]]
        for i in range(cut, n):
            r = list(tail[(i - cut) % len(tail)])
            r[0] = rows[i][0]
            new.append(r)
        spec2['candles'][s] = new
    r1 = session.run(spec, obs='candles')
    r2 = session.run(spec2, obs='candles')
    t_ms = T0 + cut * MIN
    p1, p2 = project(r1['trace'], t_ms), project(r2['trace'], t_ms)
    info = dict(prefix_events=len(p1), fills=sum(1 for e in p1 if e['ev'] == 'executed' and e.get('after') == 'EXECUTED'),
                differs_after=(r1['trace'] != r2['trace']), err1=r1['error'] and r1['error']['type'], err2=r2['error'] and r2['error']['type'])
    vios = []
    if 'Watchdog' in (info['err1'], info['err2']):
        # a looping program was stopped by the harness' wall-clock watchdog: where it stops is not a function of the inputs
        info['watchdog'] = True
        return [], info
    d = first_diff(p1, p2)
    if d is not None:
        i, x, y, keys = d
        kind = (x or y)['ev']
        name = (x or y).get('name', '')
        field = sorted(keys)[0]
        if field == 'candles' and x and y:
            sub = [k for k in x['candles'] if x['candles'].get(k) != y['candles'].get(k)]
            field = 'candles:' + (sub[0].split('|')[1] if sub else '?')
        sim = 'fast' if spec.get('fast') else 'step'
        msg = (f'prefix event {i} ({kind} {name}) differs in {sorted(keys)} although only candles from minute {cut} on were replaced; '
               f'run A: {_brief(x, keys)} run B: {_brief(y, keys)}')
        vios.append((f'C01:sim={sim}:event={kind}:field={field}', msg))
    return vios, info


def _brief(e, keys):
    if e is None:
        return None
    out = {}
    for k in list(keys)[:3]:
        v = e.get(k)
        if k == 'candles' and isinstance(v, dict):
            v = {kk: (vv[-2:] if isinstance(vv, list) else vv) for kk, vv in list(v.items())[:2]}
        if k in ('self_candles',) and isinstance(v, list):
            v = v[-2:]
        out[k] = v
    out['t'] = e.get('t')
    return out


def replay(case):
    return run_pair(case)[0]


def run_shard(acc, shard, nshards, seed, tier):
    from hypothesis import strategies as st
    from vf import runner
    from vf.gen import sessions, candles as gc
    known = runner.known_signatures('C01')

    @st.composite
    def cases(draw):
        spec = draw(sessions.session(minutes=(60, 150) if tier == 'quick' else (60, 400), align_len=True, program=dict(busy=True), data_only_symbol=True))
        n = spec['n']
        tf = max(sessions.TF_MIN[r['timeframe']] for r in spec['routes'])
        if spec['fast']:
            k = draw(st.integers(1, max(1, n // tf - 1)))
            cut = k * tf
        else:
            cut = draw(st.integers(2, n - 2))
        tails = {}
        for s in spec['candles']:
            tick = spec['ticks'][s]
            style = draw(st.sampled_from(['continue', 'jump']))
            last_close = spec['candles'][s][cut - 1][2]
            start = round(last_close / tick) + (0 if style == 'continue' else draw(st.sampled_from([-40, -7, 9, 60])))
            c = draw(gc.structural(min(n - cut, 40), tick=tick, start=max(25, start)))
            tails[s] = c['rows']
        return dict(spec=spec, cut=cut, tails=tails)

    def chk(case):
        vios, info = run_pair(case)
        spec = case['spec']
        nt = info['fills'] >= 1 and info['differs_after'] and not info.get('watchdog')
        cl = ['sim:' + ('fast' if spec['fast'] else 'step'), 'type:' + spec['cfg']['type'], f"routes={len(spec['routes'])}", f"data={len(spec['data'])}",
              'data-only-symbol' if len(spec['candles']) > len(spec['routes']) else 'traded-symbols-only',
              'warmup' if spec['warmup'] else 'no-warmup', 'tf:' + spec['routes'][0]['timeframe']]
        if info['err1']:
            cl.append('aborted:' + info['err1'])
        key = (spec['cfg'], spec['routes'], spec['data'], spec['scripts'], {s: v[:case['cut']] for s, v in spec['candles'].items()}, spec['fast'])
        return dict(key=key, nontrivial=nt, classes=cl, violations=vios,
                    sample=dict(cfg=spec['cfg'], routes=spec['routes'], data=spec['data'], fast=spec['fast'], minutes=spec['n'], cut=case['cut'],
                                prefix_events=info['prefix_events'], fills_in_prefix=info['fills']) if nt else None)
    runner.hyp_search(acc, cases(), chk, 10 if tier == 'quick' else 1200, seed, tier, known=known, shrink_calls=12, max_shrink_sigs=1)
