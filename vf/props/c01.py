"""C01 - backtest decisions never depend on future candles (2-run hyperproperty)."""

RULE = ("Hypothesis-generated session pairs: a full session S (lattice candles with gaps/flats for 1-2 symbols, a ScriptedStrategy "
        "program per route, spot/futures, trading timeframe 1m..15m, 0-2 data routes 3m..1h, warm-up on/off, cross / isolated margin with leverage 1..100, both simulators) is "
        "run on candles X and on X[:t] + Y[t:], where the cut minute t is drawn, or placed 0-4 minutes after a drawn fill of the "
        "first run (fast mode: a multiple of the trading timeframe) and Y is an independently drawn tail for every symbol. Both traces are projected on the events stamped "
        "with simulated time <= T0 + t minutes (hook invocations with the candle arrays of every readable (symbol, timeframe), "
        "price, position, balance, margin; order submissions, cancellations, fills with all fields) and must be equal as "
        "sequences, floats compared exactly. distinct = digest of (X[:t], scripts, config); non-trivial = the common prefix "
        "contains at least one fill and the two full traces differ after t.")
ASSUMPTIONS = [
    "an event processed while minute i is the newest candle carries store.app.time = end of minute i, so the projection keeps exactly the events that may depend on candles ending before or at t",
    "session start and warm-up length are aligned to every route timeframe (jesse's loader guarantees that)",
    "the strategy is a deterministic function of its script and of what it can observe (ScriptedStrategy)",
    "fast mode is run with a session length that is a multiple of the chunk (see C07 for other lengths)",
]
TECHNIQUE = "metamorphic 2-run (non-interference) testing over generated sessions, cut points and replacement tails"
MIN_NONTRIVIAL = {'quick': 60, 'thorough': 3000}
MIN = 60_000
TF_MIN = {'1m': 1, '3m': 3, '5m': 5, '15m': 15, '30m': 30, '45m': 45, '1h': 60}


def project(trace, t_ms):
    out = []
    for e in trace:
        if e.get('t', 0) > t_ms:
            break
        if e['ev'] in ('minute-end', 'chunk-end'):
            continue
        if e['ev'] in ('minute', 'chunk'):
            continue  # input echo: the candles handed to the matcher are the inputs themselves (compared through hooks)
        if e['ev'] == 'liq-check':
            continue  # an internal call, not an observable: a liquidation shows through its order, fill and the account values
        d = {k: v for k, v in e.items() if k not in ('snap',)}
        out.append(d)
    return out


def first_diff(a, b):
    for i, (x, y) in enumerate(zip(a, b)):
        if x != y:
            keys = [k for k in set(x) | set(y) if x.get(k) != y.get(k)]
            return i, x, y, keys
    if len(a) != len(b):
        i = min(len(a), len(b))
        return i, (a[i] if i < len(a) else None), (b[i] if i < len(b) else None), ['<length>']
    return None


def run_pair(case):
    """case: dict(spec, cut, tails) -> (violations, info)"""
    import copy
    from vf.drive import session
    from vf.drive.bench import T0
    spec = case['spec']
    cut = case['cut']
    r1 = session.run(spec, obs='candles')
    directed = False
    if case.get('cut_after') and not r1['error']:
        # directed cut: the cut is placed a few minutes after the j-th fill of run A (look-ahead matters around fills and liquidations)
        j, delta = case['cut_after'][:2]
        fills = [e for e in r1['trace'] if e['ev'] == 'executed' and e.get('after') == 'EXECUTED']
        if len(case['cut_after']) > 2 and case['cut_after'][2] == 'tie':
            # prefer fills in a minute that closes exactly where it opened (its colour is a tie) or touches an order exactly at an extreme
            def tie_minute(e):
                i = int((e['t'] - T0) // MIN) - 1
                rows = spec['candles'].get(e['sym'])
                if rows is None or not (0 < i < len(rows)):
                    return False
                return rows[i][2] == rows[i - 1][2]  # close == (normalised) open = previous close
            # ... and, among those, minutes in which a second order ended too (a sibling exit cancelled by the fill, another fill): the
            # order in which the minute's candidates were tried is then observable
            ended = {}
            for e2 in r1['trace']:
                if e2['ev'] in ('executed', 'cancel'):
                    ended[(e2.get('sym'), e2['t'])] = ended.get((e2.get('sym'), e2['t']), 0) + 1
            ties = [e for e in fills if tie_minute(e)]
            fills = [e for e in ties if ended.get((e.get('sym'), e['t']), 0) >= 2] or ties or fills
        elif len(case['cut_after']) > 2 and case['cut_after'][2]:
            # prefer the fills of liquidation orders when there are any
            liq_ords = {e['ord'] for e in r1['trace'] if e['ev'] == 'submit' and e.get('phase') == 'liquidation'}
            fills = [e for e in fills if e['ord'] in liq_ords] or fills
        n = spec['n']
        if fills:
            e = fills[j % len(fills)]
            i = int((e['t'] - T0) // MIN) - 1  # the minute during which it filled
            c2 = i + 1 + delta
            if spec.get('fast'):
                tf = max(TF_MIN[r['timeframe']] for r in spec['routes'])
                c2 = -(-c2 // tf) * tf
            if 2 <= c2 <= n - 2:
                cut, directed = c2, True
    spec2 = copy.deepcopy(spec)
    for s, rows in spec2['candles'].items():
        tail = case['tails'][s]
        n = len(rows)
        new = [list(r) for r in rows[:cut]]
        shift = 0.0
        if directed and (case.get('styles') or {}).get(s) == 'continue':
            shift = rows[cut - 1][2] - tail[0][1]  # keep the tail continuing from the close at the cut
            if min(r[4] for r in tail) + shift <= 0:
                shift = 0.0
        for i in range(cut, n):
            r = list(tail[(i - cut) % len(tail)])
            r[0] = rows[i][0]
            if shift:
                r[1], r[2], r[3], r[4] = r[1] + shift, r[2] + shift, r[3] + shift, r[4] + shift
            new.append(r)
        spec2['candles'][s] = new
    r2 = session.run(spec2, obs='candles')
    t_ms = T0 + cut * MIN
    p1, p2 = project(r1['trace'], t_ms), project(r2['trace'], t_ms)
    liq = sum(1 for e in p1 if e.get('phase') == 'liquidation' and e['ev'] == 'submit')
    info = dict(cut=cut, directed=directed, liquidations=liq, prefix_events=len(p1), fills=sum(1 for e in p1 if e['ev'] == 'executed' and e.get('after') == 'EXECUTED'),
                differs_after=(r1['trace'] != r2['trace']), err1=r1['error'] and r1['error']['type'], err2=r2['error'] and r2['error']['type'])
    vios = []
    if 'Watchdog' in (info['err1'], info['err2']):
        # a looping program was stopped by the harness' wall-clock watchdog: where it stops is not a function of the inputs
        info['watchdog'] = True
        return [], info
    d = first_diff(p1, p2)
    if d is not None:
        i, x, y, keys = d
        kind = (x or y)['ev']
        name = (x or y).get('name', '')
        field = sorted(keys)[0]
        if field == 'candles' and x and y:
            sub = [k for k in x['candles'] if x['candles'].get(k) != y['candles'].get(k)]
            field = 'candles:' + (sub[0].split('|')[1] if sub else '?')
        sim = 'fast' if spec.get('fast') else 'step'
        msg = (f'prefix event {i} ({kind} {name}) differs in {sorted(keys)} although only candles from minute {cut} on were replaced; '
               f'run A: {_brief(x, keys)} run B: {_brief(y, keys)}')
        vios.append((f'C01:sim={sim}:event={kind}:field={field}', msg))
    return vios, info


def _brief(e, keys):
    if e is None:
        return None
    out = {}
    for k in list(keys)[:3]:
        v = e.get(k)
        if k == 'candles' and isinstance(v, dict):
            v = {kk: (vv[-2:] if isinstance(vv, list) else vv) for kk, vv in list(v.items())[:2]}
        if k in ('self_candles',) and isinstance(v, list):
            v = v[-2:]
        out[k] = v
    out['t'] = e.get('t')
    return out


def replay(case):
    return run_pair(case)[0]


def run_shard(acc, shard, nshards, seed, tier):
    from hypothesis import strategies as st
    from vf import runner
    from vf.gen import sessions, candles as gc
    known = runner.known_signatures('C01')

    general = sessions.session(minutes=(60, 150) if tier == 'quick' else (60, 400), align_len=True, program=dict(busy=True), data_only_symbol=True,
                               modes=('cross', 'isolated'), leverages=(1, 2, 5, 10, 25, 50, 100), candle_opts=dict(spin_ps=(0, 0, 3)), unaligned_warmup=True)
    # held, highly leveraged isolated positions with far resting exits: liquidations inside the prefix
    levered = sessions.session(minutes=(60, 150) if tier == 'quick' else (60, 400), kinds=('futures',), modes=('isolated',), leverages=(20, 50, 100, 125),
                               tfs=('3m', '5m', '15m', '1m'), max_data=1, warmup=(False,), align_len=True, structural=False,
                               program=dict(busy=True, hold=True, cycle=True))

    @st.composite
    def cases(draw, base=general, liq_bias=False):
        spec = draw(base)
        n = spec['n']
        tf = max(sessions.TF_MIN[r['timeframe']] for r in spec['routes'])
        if spec['fast']:
            k = draw(st.integers(1, max(1, n // tf - 1)))
            cut = k * tf
        else:
            cut = draw(st.integers(2, n - 2))
        tails, styles = {}, {}
        if liq_bias:
            # held, levered positions: most cuts are placed around the liquidation fills of the first run
            cut_after = draw(st.sampled_from([None, (0, 0), (1, 1), (0, 0, True), (1, 1, True), (0, 2, True), (2, 0, True), (0, 1, True), (1, 0, True), (3, 0, True), (0, 4, True)]))
        else:
            cut_after = draw(st.sampled_from([None, None, (0, 0), (1, 1), (2, 0), (3, 2), (5, 1), (1, 4), (0, 2), (7, 0), (0, 0, True), (1, 1, True), (0, 2, True), (2, 0, True), (0, 0, 'tie'), (1, 0, 'tie'), (2, 0, 'tie'), (3, 0, 'tie')]))
        for s in spec['candles']:
            tick = spec['ticks'][s]
            style = draw(st.sampled_from(['continue', 'jump']))
            last_close = spec['candles'][s][cut - 1][2]
            start = round(last_close / tick) + (0 if style == 'continue' else draw(st.sampled_from([-40, -7, 9, 60])))
            c = draw(gc.structural(min(n - cut, 40), tick=tick, start=max(25, start)))
            tails[s] = c['rows']
            styles[s] = style
        return dict(spec=spec, cut=cut, tails=tails, styles=styles, cut_after=cut_after)

    def chk(case):
        vios, info = run_pair(case)
        spec = case['spec']
        nt = info['fills'] >= 1 and info['differs_after'] and not info.get('watchdog')
        cl = ['sim:' + ('fast' if spec['fast'] else 'step'), 'type:' + spec['cfg']['type'], f"routes={len(spec['routes'])}", f"data={len(spec['data'])}",
              'data-only-symbol' if len(spec['candles']) > len(spec['routes']) else 'traded-symbols-only',
              'warmup' if spec['warmup'] else 'no-warmup', 'tf:' + spec['routes'][0]['timeframe']]
        if info['err1']:
            cl.append('aborted:' + info['err1'])
        if info.get('liquidations'):
            cl.append('liquidation-in-prefix')
        if spec['cfg']['type'] == 'futures':
            cl.append('margin:' + spec['cfg']['mode'])
        cl.append('cut:directed-after-a-fill' if info.get('directed') else 'cut:drawn')
        key = (spec['cfg'], spec['routes'], spec['data'], spec['scripts'], {s: v[:info['cut']] for s, v in spec['candles'].items()}, spec['fast'])
        return dict(key=key, nontrivial=nt, classes=cl, violations=vios,
                    sample=dict(cfg=spec['cfg'], routes=spec['routes'], data=spec['data'], fast=spec['fast'], minutes=spec['n'], cut=info['cut'],
                                prefix_events=info['prefix_events'], fills_in_prefix=info['fills']) if nt else None)
    runner.hyp_search(acc, cases(), chk, 40 if tier == 'quick' else 1200, seed, tier, known=known, shrink_calls=12, max_shrink_sigs=1)
    runner.hyp_search(acc, cases(base=levered, liq_bias=True), lambda c: dict(chk(c), sub='levered-isolated-sessions'), 30 if tier == 'quick' else 600, seed + 3, tier,
                      known=known, shrink_calls=12, max_shrink_sigs=1)
