"""C14 - sequential and single-value indicator results agree."""
import numpy as np

RULE = ("every public indicator (introspection, ~168) on Hypothesis-drawn series (8 kinds, PCG64 expansion of a drawn seed) "
        "of lengths below / at / above the 240-candle warm-up window (130, 200, 239, 240, 241, 300, 400, 600), default and drawn "
        "non-default integer periods and every source type. Checks per (indicator, field): (i) the sequential result has "
        "exactly len(candles) entries; (ii) for len <= 240 the non-sequential result equals the last sequential entry on "
        "the same input; (iii) for len > 240 the non-sequential result equals the last entry of the sequential result on "
        "candles[-240:]. None is read as NaN; NaN==NaN; rtol 1e-9, atol 1e-9 x input scale; strings/booleans exactly. "
        "distinct = (indicator, params, series); non-trivial = the compared last value is finite (or a string/boolean).")
ASSUMPTIONS = [
    "the warm-up window is 240 candles (taken from the property text; the process never changes env.data.warmup_candles_num)",
    "minmax: non-sequential flags are compared with entry order+1 from the end (documented), its other fields like the rest",
    "an indicator call that raises for a parameter combination / short input is skipped and counted",
]
TECHNIQUE = "differential check sequential vs non-sequential API over generated lengths around the warm-up window, parameters and source types"
MIN_NONTRIVIAL = {'quick': 1500, 'thorough': 30000}
WINDOW = 240


def _num(x):
    return isinstance(x, (int, float, np.integer, np.floating)) and not isinstance(x, (bool, np.bool_))


def _eq(a, b, scale):
    if a is None:
        a = float('nan')
    if b is None:
        b = float('nan')
    if _num(a) and _num(b):
        return bool(np.isclose(float(a), float(b), rtol=1e-9, atol=1e-9 * scale, equal_nan=True))
    try:
        r = (a == b)
        if isinstance(r, np.ndarray):
            return bool(r.all())
        return bool(r) or (a != a and b != b)
    except Exception:  # noqa
        return False


def eval_case(case, only=None):
    from vf.gen import indicators as gi
    ind = gi.discover()
    n = case['n']
    c = gi.make_candles(case['kind'], n, case['seed'], case.get('scale', 100.0))
    c2 = gi.make_candles('walk', n, case['seed'] + 1, case.get('scale', 100.0))
    scale = float(max(np.abs(c[:, 1:5]).max(), np.abs(c[:, 5]).max()))
    vios, stats = [], dict(evals=0, skipped=0, nontrivial=0, called=0)
    for name, (f, sig) in ind.items():
        if only and name not in only:
            continue
        kw = case['params'].get(name, {}) if isinstance(case['params'], dict) else {}
        try:
            seq = gi.fields(gi.call(name, f, sig, c, True, kw, c2))
            single = gi.fields(gi.call(name, f, sig, c, False, kw, c2))
            ref = seq if n <= WINDOW else gi.fields(gi.call(name, f, sig, c[-WINDOW:], True, kw, c2[-WINDOW:]))
        except Exception:  # noqa
            stats['skipped'] += 1
            continue
        stats['called'] += 1
        small = dict(case, only=[name], params={name: kw} if kw else 'default')
        tag = f' [kind={case["kind"]} n={n} seed={case["seed"]} params={kw or "defaults"}]'
        if list(seq.keys()) != list(single.keys()):
            vios.append((f'C14:indicator={name}:fields-differ', f'{list(seq.keys())} vs {list(single.keys())}' + tag, small))
            continue
        for fld in seq:
            stats['evals'] += 1
            s = np.asarray(seq[fld])
            if s.ndim == 0 or len(s) != n:
                vios.append((f'C14:indicator={name}:field={fld}:length', f'{name}.{fld}: sequential result has {s.shape} entries for {n} candles' + tag, small))
                if s.ndim == 0:
                    continue
            r = np.asarray(ref[fld])
            if r.ndim == 0 or len(r) == 0:
                continue
            off = -1
            if name == 'minmax' and fld in ('is_min', 'is_max'):
                order = kw.get('order', gi.default_kwargs(sig).get('order', 3))
                off = -(order + 1)
            last = r[off].item() if hasattr(r[off], 'item') else r[off]
            sv = single[fld]
            sv = sv.item() if isinstance(sv, np.ndarray) and sv.ndim == 0 else sv
            if isinstance(sv, np.ndarray):
                vios.append((f'C14:indicator={name}:field={fld}:non-sequential-returns-series', f'{name}.{fld} returns shape {sv.shape} with sequential=False' + tag, small))
                continue
            if not _num(last) or np.isfinite(float(last)):
                stats['nontrivial'] += 1
            if not _eq(sv, last, scale):
                kind = 'last-vs-single' if n <= WINDOW else 'long-input-window'
                vios.append((f'C14:indicator={name}:field={fld}:{kind}',
                             f'{name}.{fld}: sequential=False gives {sv!r}, sequential series on {"the same input" if n <= WINDOW else "candles[-240:]"} ends with {last!r}' + tag, small))
    return vios, stats


def replay(case):
    vios, _ = eval_case(case, only=case.get('only'))
    return [(s, m) for s, m, _ in vios]


def run_shard(acc, shard, nshards, seed, tier):
    from hypothesis import strategies as st, given, settings, HealthCheck, Phase
    import hypothesis
    from vf.gen import indicators as gi
    from vf.props.c13 import KINDS
    ind = gi.discover()
    nseries = 4 if tier == 'quick' else 60

    @st.composite
    def cases(draw):
        kind = draw(st.sampled_from(KINDS))
        n = draw(st.sampled_from([130, 200, 239, 240, 241, 241, 300, 400, 600, 130, 200, 239, 240, 241, 300, 400, 600, 2049, 4097]))
        default = draw(st.sampled_from([True, False, False]))
        params = 'default'
        if not default:
            params = {}
            pmax = max(2, min(60, min(n, WINDOW) // 4))
            for name, (f, sig) in ind.items():
                params[name] = gi.perturb_kwargs(sig, lambda a, b: draw(st.integers(a, min(b, pmax))), lambda xs: draw(st.sampled_from(xs)))
        return dict(kind=kind, n=n, seed=draw(st.integers(0, 2 ** 31)), params=params, scale=draw(st.sampled_from([100.0, 100.0, 1e-3, 25000.0])))

    @hypothesis.seed(seed)
    @settings(max_examples=nseries, phases=[Phase.generate], database=None, deadline=None, suppress_health_check=list(HealthCheck), derandomize=False)
    @given(cases())
    def run(case):
        vios, stats = eval_case(case)
        acc.evaluations += stats['evals']
        acc.exclude('indicator call raised (short input / invalid parameter combination)', stats['skipped'])
        d = acc.sub.setdefault('field-comparisons', {'evaluations': 0})
        d['evaluations'] += stats['evals']
        for i in range(stats['nontrivial']):
            acc.nontrivial.add(f"{case['kind']}|{case['n']}|{case['seed']}|{i}|{shard}")
        acc.classes['series:' + case['kind']] += 1
        acc.classes['len:' + ('<240' if case['n'] < 240 else '=240' if case['n'] == 240 else '>240')] += 1
        acc.classes['params:' + ('default' if case['params'] == 'default' else 'perturbed')] += 1
        if len(acc.samples) < 2:
            acc.samples.append(dict(kind=case['kind'], n=case['n'], seed=case['seed'], scale=case['scale'],
                                    params=case['params'] if case['params'] == 'default' else {k: v for k, v in list(case['params'].items())[:4]},
                                    indicators=stats['called']))
        for sig, msg, small in vios:
            acc.violation(sig, msg, small, size=small['n'] * 1000 + (0 if small['params'] == 'default' else 500))

    run()
