"""C16 - reported metrics are consistent with the trades and the equity series."""
import math

import numpy as np

RULE = ("(a) Hypothesis-generated lists of 1..3000 real ClosedTrade objects (profiles: mixed, all wins, all losses, with "
        "zero-PnL trades, single trade, long/short mix in any order; fee drawn; entry/exit fills in the trade's own order "
        "tables) and generated daily-balance lists (2..400 positive samples incl. flat, monotone, crashing-on-day-one; one in eight 1..8 years long) fed "
        "to jesse.services.metrics.trades inside a real session state; every reported key is recomputed by an independent "
        "reference from the trades' own pnl / fee / type / holding_period and from the equity samples (definitions in "
        "DESIGN.md C16). (b) multi-day sessions (1.5-4 simulated days, 1-2 routes, spot and futures, both simulators) "
        "through research.backtest: number of equity samples, first = starting balance, every sample = account equity "
        "recomputed from the account snapshot taken at the sampling moment (futures: wallet + unrealised PnL of all "
        "routes; spot: free quote + quote reserved by ALL resting buys + base x price), last = final portfolio value, and "
        "the metrics of the run recomputed by the same reference from the run's closed trades. distinct = digest of the "
        "PnL sequence + equity list / session spec; non-trivial = (a) list with winners and losers or a named degenerate "
        "profile, (b) a sample taken with an open position or a resting buy.")
ASSUMPTIONS = [
    "tolerance 1e-9 relative (1e-7 for ratios whose denominator is a sample standard deviation below 1e-9); NaN must match NaN and +-inf must match +-inf",
    "Sortino's downside deviation may divide by the number of returns n or by n+1 (jesse keeps the undefined first pct_change row in the count; the property does not fix that convention)",
    "a streak is a maximal run of consecutive trades with PnL > 0 (resp. < 0); a zero-PnL trade ends both runs",
    "trade PnL / fee / holding period are taken from the ClosedTrade objects (their agreement with the fills is property C06)",
    "equity samples are strictly positive (daily returns are undefined otherwise)",
]
TECHNIQUE = "differential testing of metrics.trades against a reference over Hypothesis-generated trade lists and equity series; equity-sample oracle on generated multi-day sessions"
MIN_NONTRIVIAL = {'quick': 300, 'thorough': 8000}


# ---------------------------------------------------------------------------------------------
def ref_metrics(pnls, fees, types, holds, starting_balance, equity):
    """Reference definitions. Returns dict key -> float (nan / inf allowed)."""
    n = len(pnls)
    wins = [p for p in pnls if p > 0]
    losses = [p for p in pnls if p < 0]
    out = {'total': n, 'total_winning_trades': len(wins), 'total_losing_trades': len(losses)}
    out['win_rate'] = len(wins) / (len(wins) + len(losses)) if wins else 0.0
    out['net_profit'] = math.fsum(pnls)
    out['gross_profit'] = math.fsum(wins)
    out['gross_loss'] = math.fsum(losses)
    out['net_profit_percentage'] = out['net_profit'] / starting_balance * 100
    longs = sum(1 for t in types if t == 'long')
    shorts = sum(1 for t in types if t == 'short')
    out['longs_count'], out['shorts_count'] = longs, shorts
    out['longs_percentage'] = longs / (longs + shorts) * 100
    out['shorts_percentage'] = shorts / (longs + shorts) * 100
    out['fee'] = math.fsum(fees)
    out['largest_winning_trade'] = max(wins) if wins else 0.0
    out['largest_losing_trade'] = min(losses) if losses else 0.0
    aw = math.fsum(wins) / len(wins) if wins else float('nan')
    al = abs(math.fsum(losses) / len(losses)) if losses else float('nan')
    out['average_win'], out['average_loss'] = aw, al
    out['ratio_avg_win_loss'] = aw / al if (wins and losses) else float('nan')
    ex = (0 if not wins else aw) * out['win_rate'] - (0 if not losses else al) * (1 - out['win_rate'])
    out['expectancy'] = ex
    out['expectancy_percentage'] = ex / starting_balance * 100
    out['expected_net_profit_every_100_trades'] = ex / starting_balance * 100 * 100
    out['average_holding_period'] = math.fsum(holds) / n
    hw = [h for h, p in zip(holds, pnls) if p > 0]
    hl = [h for h, p in zip(holds, pnls) if p < 0]
    out['average_winning_holding_period'] = math.fsum(hw) / len(hw) if hw else float('nan')
    out['average_losing_holding_period'] = math.fsum(hl) / len(hl) if hl else float('nan')
    best_w = best_l = run = 0
    cur = 0
    for p in pnls:
        if p > 0:
            cur = cur + 1 if cur > 0 else 1
        elif p < 0:
            cur = cur - 1 if cur < 0 else -1
        else:
            cur = 0
        best_w, best_l = max(best_w, cur), max(best_l, -cur)
    out['winning_streak'], out['losing_streak'], out['current_streak'] = best_w, best_l, cur
    # ---- equity-based ----
    E = list(equity)
    m = len(E) - 1  # number of daily returns
    nan = float('nan')
    if len(E) < 2:
        for k in ('max_drawdown', 'annual_return', 'sharpe_ratio', 'calmar_ratio', 'sortino_ratio', 'omega_ratio'):
            out[k] = nan
        return out
    if min(E) <= 0:
        # an account blown through zero (cross margin, large loss): daily returns on a non-positive equity are undefined (see
        # ASSUMPTIONS); the equity-based metrics are then not compared (the samples themselves still are)
        out['_nonpositive_equity'] = True
        return out
    r = [E[i] / E[i - 1] - 1 for i in range(1, len(E))]
    peak, mdd = E[0], 0.0
    for e in E:
        peak = max(peak, e)
        mdd = min(mdd, e / peak - 1)
    out['max_drawdown'] = mdd * 100
    years = m / 365
    cagr = (E[-1] / E[0]) ** (1 / years) - 1
    out['annual_return'] = cagr * 100
    mean = math.fsum(r) / m
    if m >= 2:
        sd = math.sqrt(math.fsum((a - mean) ** 2 for a in r) / (m - 1))
        out['sharpe_ratio'] = (mean / sd * math.sqrt(365)) if sd > 0 else (nan if mean == 0 else math.copysign(math.inf, mean))
        out['_sd'] = sd
    else:
        out['sharpe_ratio'] = nan
    out['calmar_ratio'] = cagr / abs(mdd) if mdd != 0 else 0.0
    neg2 = math.fsum(a * a for a in r if a < 0)
    out['sortino_ratio'] = [(mean / math.sqrt(neg2 / N) * math.sqrt(365)) if neg2 > 0 else (math.inf if mean > 0 else -math.inf) for N in (m, m + 1)]
    up = math.fsum(a for a in r if a > 0)
    dn = -math.fsum(a for a in r if a < 0)
    out['omega_ratio'] = up / dn if dn > 0 else nan
    return out


def compare_metrics(got, want, tag=''):
    vios = []
    sd = want.get('_sd')
    for k, w in want.items():
        if k.startswith('_'):
            continue
        if k not in got:
            vios.append((f'C16:metrics:{k}:missing', f'key missing from the reported metrics {tag}'))
            continue
        g = got[k]
        alts = w if isinstance(w, list) else [w]
        ok = False
        for a in alts:
            if isinstance(a, float) and math.isnan(a):
                ok = ok or (isinstance(g, float) and math.isnan(g))
            elif isinstance(a, float) and math.isinf(a):
                ok = ok or (g == a)
            else:
                try:
                    gf = float(g)
                except Exception:  # noqa
                    continue
                rtol = 1e-9
                if k in ('sharpe_ratio',) and sd is not None and sd < 1e-9:
                    rtol = 1e-5
                if k == 'calmar_ratio' and isinstance(want.get('max_drawdown'), float) and want['max_drawdown'] != 0:
                    # Calmar divides by the drawdown: a drawdown that is itself rounding dust of the equity samples
                    # (1e-16 relative) makes the quotient ill-conditioned; the tolerance follows the conditioning
                    rtol = max(rtol, 16 * 2.3e-16 / abs(want['max_drawdown'] / 100))
                ok = ok or (math.isfinite(gf) and abs(gf - a) <= rtol * max(1.0, abs(a), abs(gf)) + 1e-12)
        if not ok:
            vios.append((f'C16:metrics:{k}', f'reported {g!r}, definition gives {w!r} {tag}'))
    return vios


# ---------------------------------------------------------------------------------------------
_BENCH = {}


def _bench(fee):
    """A real session state (one futures exchange) whose fee the ClosedTrade objects read from the config."""
    from vf.drive.bench import Bench
    b = Bench('futures', fee, 10_000.0, 3, 'cross')
    b.close()
    return b


def trades_case(case):
    """case: dict(fee, trades=[dict(type, entry=[[q,p]..], exit=[[q,p]..], opened, hold)], equity=[...], finishing)."""
    import jesse.helpers as jh
    from jesse.models import ClosedTrade
    from jesse.services import metrics
    from vf.drive.bench import EX, T0
    b = _bench(case['fee'])
    store = b.store
    ts = []
    for i, tr in enumerate(case['trades']):
        t = ClosedTrade()
        t.id = jh.generate_unique_id()
        t.strategy_name, t.symbol, t.exchange, t.type, t.timeframe = 'S', 'BTC-USDT', EX, tr['type'], '1m'
        t.opened_at = T0 + tr['opened'] * 60_000
        t.closed_at = t.opened_at + tr['hold'] * 60_000
        t.leverage = 3
        ent, ext = (t.buy_orders, t.sell_orders) if tr['type'] == 'long' else (t.sell_orders, t.buy_orders)
        for q, p in tr['entry']:
            ent.append(np.array([q, p]))
        for q, p in tr['exit']:
            ext.append(np.array([q, p]))
        ts.append(t)
    store.app.starting_time = T0
    store.exchanges.storage[EX].assets['USDT'] = case['finishing']
    try:
        got = metrics.trades(ts, list(case['equity']))
    except Exception as e:  # noqa
        import traceback
        return [(f'C16:metrics:raised-{type(e).__name__}', traceback.format_exc()[-600:])], None
    pnls = [float(t.pnl) for t in ts]
    want = ref_metrics(pnls, [float(t.fee) for t in ts], [t.type for t in ts], [float(t.holding_period) for t in ts], 10_000.0, case['equity'])
    want['starting_balance'] = 10_000.0
    want['finishing_balance'] = case['finishing']
    vios = compare_metrics(got, want, tag=f"[{len(ts)} trades, {len(case['equity'])} equity samples]")
    if isinstance(got.get('max_drawdown'), float) and got['max_drawdown'] > 1e-9:
        vios.append(('C16:metrics:max_drawdown:positive', f"{got['max_drawdown']!r}"))
    return vios, pnls


# ---------------------------------------------------------------------------------------------
def equity_of(snap, kind):
    """Account equity from a snapshot of vf.drive.session.snapshot_accounts."""
    a = snap['assets']
    quote = a['USDT']
    if kind == 'futures':
        eq = quote
        for s, p in snap['positions'].items():
            if p['qty'] != 0 and p['entry'] is not None and p['cur'] is not None:
                eq += p['qty'] * (p['cur'] - p['entry'])
        return eq
    eq = quote
    for o in snap['resting']:
        if o['side'] == 'buy':
            eq += abs(o['qty']) * o['price']
    for s, p in snap['positions'].items():
        base = a.get(s.split('-')[0], 0.0)
        if base and p['cur'] is not None:
            eq += base * p['cur']
    return eq


def session_case(spec):
    from vf.drive import session
    r = session.run(spec, obs='light')
    kind = spec['cfg']['type']
    vios, flags = [], set()
    if r['error']:
        if r['error']['type'] in ('InsufficientMargin', 'InsufficientBalance', 'InvalidStrategy', 'OrderNotAllowed', 'Watchdog'):
            return [], {'rejected'}, r
        return [(f"C16:session:raised-{r['error']['type']}", r['error']['msg'] + r['error']['tb'][-400:])], flags, r
    fin = r['final']
    n = len(next(iter(spec['candles'].values())))
    samples = [e for e in r['trace'] if e['ev'] == 'daily-balance']
    db = fin['daily_balance']
    want_n = 1 + (n - 1) // 1440 + 1
    if len(db) != want_n:
        vios.append(('C16:equity:sample-count', f'{len(db)} samples for {n} minutes, expected {want_n}'))
    if abs(db[0] - spec['cfg']['balance']) > 1e-9 * spec['cfg']['balance']:
        vios.append(('C16:equity:first-sample-not-starting-balance', f'{db[0]!r} vs {spec["cfg"]["balance"]!r}'))
    for i, s in enumerate(samples):
        eq = equity_of(s['snap'], kind)
        open_pos = any(p['qty'] != 0 for p in s['snap']['positions'].values())
        resting_buy = any(o['side'] == 'buy' for o in s['snap']['resting'])
        if open_pos:
            flags.add('sample-with-open-position')
        if resting_buy:
            flags.add('sample-with-resting-buy')
        if abs(s['value'] - eq) > 1e-9 * max(1.0, abs(eq)):
            nroutes = len(spec['routes'])
            vios.append((f"C16:equity:{kind}:sample-differs-from-account-equity:{'multi-route' if nroutes > 1 else 'single-route'}"
                         f"{':resting-buy' if resting_buy else ''}",
                         f"sample {i} = {s['value']!r} but the account equity at that moment is {eq!r} (snapshot {s['snap']})"))
    final_eq = equity_of(fin['accounts'], kind)
    if abs(db[-1] - final_eq) > 1e-9 * max(1.0, abs(final_eq)):
        vios.append((f'C16:equity:{kind}:last-sample-not-final-portfolio-value', f'{db[-1]!r} vs {final_eq!r}'))
    m = r['result']['metrics']
    flipped = [t for t in fin['trades'] if t['pnl'] != t['pnl'] or not t['qty']]
    if flipped:
        # a position flip (resting entry orders of the other side left over by should_cancel_entry = no) leaves a trade without entries
        # (quantity 0, NaN entry price and PnL) in the log: C06's known finding. The trade-list identities say nothing about such a list
        # (every sum is NaN); the equity samples above were still judged.
        flags.add('excluded:trade-log-of-a-flipped-position(C06-known-finding)')
    elif fin['trades']:
        pnls = [t['pnl'] for t in fin['trades']]
        want = ref_metrics(pnls, [t['fee'] for t in fin['trades']], [t['type'] for t in fin['trades']],
                           [t['holding_period'] for t in fin['trades']], fin['starting_balance'], db)
        want['starting_balance'] = fin['starting_balance']
        want['finishing_balance'] = fin['accounts']['assets']['USDT']
        vios += compare_metrics(m, want, tag=f'[session, {len(pnls)} trades]')
        flags.add('session-with-trades')
        if want.get('_nonpositive_equity'):
            flags.add('excluded:equity-metrics-of-an-account-below-zero')
    return vios, flags, r


def replay(case):
    if case.get('kind') == 'session':
        return session_case(case['spec'])[0]
    return trades_case(case)[0]


def run_shard(acc, shard, nshards, seed, tier):
    from hypothesis import strategies as st
    from vf import runner
    from vf.gen import sessions
    known = runner.known_signatures('C16')
    price = st.one_of(st.integers(50, 400).map(lambda k: k * 0.5), st.floats(0.5, 50000))
    qty = st.sampled_from([0.1, 0.25, 0.5, 1.0, 2.0, 3.3])

    @st.composite
    def trade(draw, profile):
        typ = draw(st.sampled_from(['long', 'short']))
        ne, nx = draw(st.integers(1, 3)), draw(st.integers(1, 3))
        e0 = draw(price)
        entry = [[draw(qty), e0 * (1 + 0.001 * i)] for i in range(ne)]
        total = sum(q for q, _ in entry)
        if profile == 'zero' and draw(st.booleans()):
            x0 = sum(q * p for q, p in entry) / total  # exits at the average entry: zero gross profit
        else:
            move = draw(st.floats(0.0005, 0.2))
            good = {'wins': True, 'losses': False}.get(profile, draw(st.booleans()))
            up = good if typ == 'long' else not good
            x0 = e0 * (1 + move * 3) if up else e0 * (1 - move)
        exits = [[total / nx, x0] for _ in range(nx)]
        return dict(type=typ, entry=entry, exit=exits, opened=draw(st.integers(0, 10 ** 6)), hold=draw(st.integers(0, 10 ** 4)))

    @st.composite
    def equity(draw):
        if draw(st.integers(0, 7)) == 0:
            # several years of daily samples (conventional look-back windows are 1, 3, 5 years): PCG64 expansion of a drawn seed
            import numpy as np
            n = draw(st.sampled_from([366, 731, 1095, 1096, 1097, 1500, 1827, 2200, 3000]))
            rng = np.random.Generator(np.random.PCG64(draw(st.integers(0, 2 ** 31))))
            drift = draw(st.sampled_from([0.0, 0.0005, -0.0005]))
            f = 1 + rng.normal(drift, 0.02, n - 1)
            early = draw(st.booleans())
            if early:
                f[: n // 5] = 1 + rng.normal(-0.004, 0.03, n // 5)  # the deepest drawdown lies in the first fifth of the history
            return [float(x) for x in np.concatenate(([10_000.0], 10_000.0 * np.cumprod(np.maximum(f, 0.5))))]
        n = draw(st.one_of(st.integers(2, 12), st.integers(2, 400)))
        style = draw(st.sampled_from(['walk', 'walk', 'flat', 'up', 'down', 'crash-first', 'single-dip']))
        e = [10_000.0]
        for i in range(n - 1):
            if style == 'flat':
                f = 1.0
            elif style == 'up':
                f = 1 + draw(st.floats(0.0, 0.03))
            elif style == 'down':
                f = 1 - draw(st.floats(0.0, 0.03))
            elif style == 'crash-first':
                f = 0.8 if i == 0 else 1 + draw(st.floats(-0.01, 0.02))
            elif style == 'single-dip':
                f = 0.9 if i == n // 2 else 1.0
            else:
                f = 1 + draw(st.floats(-0.05, 0.05))
            e.append(e[-1] * f)
        return e

    @st.composite
    def cases(draw):
        profile = draw(st.sampled_from(['mixed', 'mixed', 'wins', 'losses', 'zero', 'single', 'many']))
        fee = draw(st.sampled_from([0.0, 0.0004, 0.001] if profile != 'zero' else [0.0]))
        n = 1 if profile == 'single' else (draw(st.integers(300, 3000 if tier == 'thorough' else 800)) if profile == 'many' else draw(st.integers(1, 40)))
        trs = [draw(trade('mixed' if profile in ('single', 'many') else profile)) for _ in range(n)]
        return dict(kind='trades', profile=profile, fee=fee, trades=trs, equity=draw(equity()), finishing=draw(st.floats(100, 50_000)))

    def chk(c):
        vios, pnls = trades_case(c)
        nt = bool(pnls) and ((any(p > 0 for p in pnls) and any(p < 0 for p in pnls)) or c['profile'] in ('wins', 'losses', 'zero', 'single'))
        cl = ['profile:' + c['profile'], 'equity-len:' + ('short' if len(c['equity']) < 13 else ('long' if len(c['equity']) <= 400 else 'years'))]
        if pnls and any(p == 0 for p in pnls):
            cl.append('has-zero-pnl-trade')
        key = (c['fee'], [round(p, 6) for p in (pnls or [])][:50], len(pnls or []), c['equity'][:20])
        return dict(key=key, nontrivial=nt, classes=cl, violations=vios, sub='synthetic-trade-lists',
                    sample=dict(profile=c['profile'], n_trades=len(c['trades']), first_trades=c['trades'][:2], equity=c['equity'][:6]) if len(c['trades']) < 5 else None)
    runner.hyp_search(acc, cases(), chk, 40 if tier == 'quick' else 1500, seed, tier, known=known, shrink_calls=80)

    sess = sessions.session(minutes=(1500, 1900) if tier == 'quick' else (1500, 5800), tfs=('5m', '15m', '1m'), data_tfs=('15m', '1h'), max_data=1,
                            warmup=(False,), structural=False, same_tf=False, program=dict(busy=True, resting=True, cycle=True), align_len=True)

    hold = sessions.session(minutes=(1500, 1900) if tier == 'quick' else (1500, 5800), kinds=('futures',), tfs=('5m', '15m', '1m'), data_tfs=('15m', '1h'),
                            max_data=1, warmup=(False,), structural=False, leverages=(2, 3, 5, 10), program=dict(busy=True, hold=True, cycle=True),
                            align_len=True)

    spot2 = sessions.session(minutes=(1500, 1900) if tier == 'quick' else (1500, 5800), kinds=('spot',), tfs=('5m', '15m', '1m'), max_data=0, warmup=(False,),
                             structural=False, min_symbols=2, program=dict(busy=True, resting=True, cycle=True), align_len=True)

    def whole(base):
        # 2 sessions in 5 are cut to a whole number of days (the day boundary then coincides with the end of the session)
        @st.composite
        def w(draw):
            spec = draw(base)
            if draw(st.sampled_from([False, False, True])):
                for sc in spec['scripts'].values():
                    sc['read_metrics'] = True  # the strategy looks at self.metrics at every step and at every close
            mode = draw(st.sampled_from(['free', 'whole', 'free', 'whole', 'just-past', 'just-past']))
            if mode != 'free':
                n2 = (spec['n'] // 1440) * 1440
                if mode == 'just-past':
                    # the last step of the session starts exactly on (or a few minutes after) a day boundary
                    n2 += draw(st.sampled_from([1, 1, 2, 3, 5, 15, 30]))
                if 1440 <= n2 <= spec['n']:
                    spec = dict(spec, candles={s_: rows[:n2] for s_, rows in spec['candles'].items()}, n=n2, fast=draw(st.booleans()))
            return spec
        return w()
    sess, hold, spot2 = whole(sess), whole(hold), whole(spot2)

    def chk_s(spec):
        vios, flags, r = session_case(spec)
        if spec['n'] % 1440 == 0:
            flags.add('whole-days')
        elif spec['n'] % 1440 <= 30:
            flags.add('ends-just-past-a-day-boundary')
        if any(sc.get('read_metrics') for sc in spec['scripts'].values()):
            flags.add('strategy-reads-self.metrics')
        nt = bool(flags & {'sample-with-open-position', 'sample-with-resting-buy'})
        cl = ['session:' + spec['cfg']['type'], f"routes={len(spec['routes'])}", 'fast' if spec['fast'] else 'step'] + sorted(flags)
        return dict(key=('s', spec['cfg'], spec['scripts'], {k: v[:3] for k, v in spec['candles'].items()}), nontrivial=nt, classes=cl,
                    violations=vios, sub='multi-day-sessions',
                    sample=dict(cfg=spec['cfg'], routes=spec['routes'], minutes=spec['n'], fast=spec['fast'], daily_balance=r['final']['daily_balance'] if r['final'] else None) if nt else None)
    runner.hyp_search(acc, sess, chk_s, 3 if tier == 'quick' else 200, seed + 5, tier, known=known, shrink_calls=4 if tier == 'quick' else 40, max_shrink_sigs=1,
                      describe=lambda spec: dict(kind='session', spec=spec))
    runner.hyp_search(acc, spot2, chk_s, 3 if tier == 'quick' else 200, seed + 7, tier, known=known, shrink_calls=4 if tier == 'quick' else 40, max_shrink_sigs=1,
                      describe=lambda spec: dict(kind='session', spec=spec))
    runner.hyp_search(acc, hold, chk_s, 3 if tier == 'quick' else 200, seed + 6, tier, known=known, shrink_calls=4 if tier == 'quick' else 40, max_shrink_sigs=1,
                      describe=lambda spec: dict(kind='session', spec=spec))
