"""C19 - optimizer DNA decodes into in-range, typed, monotone hyperparameters; hp precedence in a backtest."""
import inspect
import itertools
import math

RULE = ("(a) exhaustive: every letter of the optimizer alphabet (read from Optimizer.__init__'s default charset) at every "
        "position 0..3 of a 4-parameter declaration, for every (min,max) pair with min<max from a grid of negative / "
        "fractional / large bounds and both types; (b) Hypothesis-drawn declarations (1..6 parameters, arbitrary float "
        "bounds, mixed types) with random DNA strings; (c) precedence: short backtests through research.backtest for all "
        "2^3 combinations of {declared defaults, dna(), explicit hyperparameters=}, the strategy's self.hp is read in "
        "before()/terminate(). distinct = digest of (declaration, dna, sources); non-trivial = a declaration with a "
        "negative or fractional bound, or a precedence case with >= 2 sources present.")
ASSUMPTIONS = [
    "float-typed values may miss min/max and the [min,max] interval by 1e-12 x max(1,|min|,|max|) (the affine map is evaluated in doubles)",
    "an int-typed parameter declared with fractional bounds is required to decode to a Python int inside [floor(min), ceil(max)] (rounding to the nearest integer may leave a fractional bound by < 0.5; with integer bounds the interval is exact)",
    "explicit hyperparameters passed to research.backtest contain every declared name (what the optimizer passes)",
    "the alphabet is the default `charset` argument of jesse.modes.optimize_mode.Optimize.Optimizer.__init__",
]
TECHNIQUE = "exhaustive enumeration of alphabet x position x declaration grid; Hypothesis declarations; differential precedence check through research.backtest"
MIN_NONTRIVIAL = {'quick': 500, 'thorough': 5000}

GRID = [-50, -1.5, 0, 0.001, 1, 7, 100, 10000.0]


def charset():
    from jesse.modes.optimize_mode.Optimize import Optimizer
    return inspect.signature(Optimizer.__init__).parameters['charset'].default


def check_decode(decl, dna, cs):
    """decl: list of dict(name,type,min,max). Returns violations for this dna."""
    import jesse.helpers as jh
    vios = []
    try:
        hp = jh.dna_to_hp(decl, dna)
    except Exception as e:  # noqa
        return [(f'C19:decode:raised-{type(e).__name__}', f'dna_to_hp({_d(decl)}, {dna!r}) raised {e!r}')]
    if list(hp.keys()) != [h['name'] for h in decl][:len(dna)]:
        vios.append(('C19:decode:keys', f'{list(hp.keys())} for {_d(decl)}'))
    # the value depends only on the gene: not on what a receiver did with an earlier result either
    first = dict(hp)
    for k in list(hp):
        hp[k] = hp[k] * 3 + 1
    try:
        again = jh.dna_to_hp(decl, dna)
        if again != first:
            vios.append(('C19:decode:depends-on-what-was-done-with-an-earlier-result', f'dna_to_hp({_d(decl)}, {dna!r}) = {first!r}, and after the caller edited that dict: {again!r}'))
        hp = again
    except Exception as e:  # noqa
        vios.append((f'C19:decode:raised-{type(e).__name__}', f'second dna_to_hp({_d(decl)}, {dna!r}) raised {e!r}'))
        hp = first
    for i, (g, h) in enumerate(zip(dna, decl)):
        v = hp[h['name']]
        lo, hi = h['min'], h['max']
        tol = 1e-12 * max(1, abs(lo), abs(hi)) if h['type'] is float else 0
        tname = 'int' if h['type'] is int else 'float'
        if h['type'] is int and (type(v) is not int):
            vios.append((f'C19:decode:int-type', f'{h} gene {g!r} -> {v!r} ({type(v).__name__})'))
        if h['type'] is float and not isinstance(v, float):
            vios.append((f'C19:decode:float-type', f'{h} gene {g!r} -> {v!r} ({type(v).__name__})'))
        if h['type'] is int:
            # an int parameter is judged against the integers its bounds enclose after rounding
            lo, hi = math.floor(lo), math.ceil(hi)
        if not (lo - tol <= v <= hi + tol):
            vios.append((f'C19:decode:{tname}:out-of-range', f'{_d([h])} gene {g!r} -> {v!r}'))
        if g == cs[0]:
            want = lo if h['type'] is float else int(round(h['min']))
            if abs(v - want) > tol:
                vios.append((f'C19:decode:{tname}:first-letter-not-min', f'{_d([h])} gene {g!r} -> {v!r}'))
        if g == cs[-1]:
            want = hi if h['type'] is float else int(round(h['max']))
            if abs(v - want) > tol:
                vios.append((f'C19:decode:{tname}:last-letter-not-max', f'{_d([h])} gene {g!r} -> {v!r}'))
    return vios


def _d(decl):
    return [dict(name=h['name'], type=h['type'].__name__, min=h['min'], max=h['max']) for h in decl]


def _undecl(j):
    return [dict(name=h['name'], type=int if h['type'] == 'int' else float, min=h['min'], max=h['max'], default=h.get('default', h['min'])) for h in j]


def check_position_and_monotone(decl, cs, base_dna):
    """Value at position i depends only on dna[i]; non-decreasing in ord(gene)."""
    import jesse.helpers as jh
    vios = []
    for i, h in enumerate(decl):
        prev = None
        for g in cs:
            dna = base_dna[:i] + g + base_dna[i + 1:]
            try:
                hp = jh.dna_to_hp(decl, dna)
            except Exception as e:  # noqa
                vios.append((f'C19:decode:raised-{type(e).__name__}', f'{_d(decl)} {dna!r}: {e!r}'))
                break
            v = hp[h['name']]
            for j, h2 in enumerate(decl):
                if j != i:
                    other = jh.dna_to_hp(decl, base_dna)[h2['name']]
                    if hp[h2['name']] != other:
                        vios.append(('C19:decode:depends-on-other-gene', f'{_d(decl)}: changing gene {i} changed {h2["name"]}'))
            if prev is not None and v < prev:
                vios.append((f"C19:decode:{'int' if h['type'] is int else 'float'}:not-monotone", f'{_d([h])}: {g!r} -> {v!r} < previous {prev!r}'))
            prev = v
    return vios


def exhaustive(acc, shard, nshards):
    cs = charset()
    pairs = [(a, b) for a in GRID for b in GRID if a < b]
    n = 0
    for k, ((lo, hi), typ) in enumerate(itertools.product(pairs, (int, float))):
        if k % nshards != shard:
            continue
        for pos in range(4):
            decl = [dict(name=f'p{j}', type=float, min=0.0, max=1.0, default=0.5) for j in range(4)]
            decl[pos] = dict(name=f'p{pos}', type=typ, min=lo, max=hi, default=lo)
            vios = []
            for g in cs:
                dna = cs[3] * pos + g + cs[5] * (3 - pos)
                vios += check_decode(decl, dna, cs)
                n += 1
            vios += check_position_and_monotone(decl, cs, cs[7] * 4) if pos in (0, 3) else []
            nt = (lo < 0 or hi < 0 or lo != int(lo) or hi != int(hi))
            acc.case(key=('exh', lo, hi, typ.__name__, pos), nontrivial=nt, classes=[f'exh:{typ.__name__}'], n=len(cs),
                     sample=dict(decl=_d(decl), position=pos, letters=len(cs)) if (k % 23 == 0 and pos == 1) else None, sub='exhaustive-grid')
            for sig, msg in vios:
                acc.violation(sig, msg, dict(kind='decode', decl=_d(decl), dna=None, pos=pos), size=abs(hi - lo))
    acc.mark_exhaustive('exhaustive-grid', f'{len(cs)} letters x 4 positions x {len(pairs)} (min,max) pairs x 2 types (this shard: 1/{nshards})')


# ---------------------------------------------------------------------------------------------
def precedence_case(case):
    """case: dict(decl=[...json...], dna=str|'' , explicit=dict|None, defaults=bool) -> violations."""
    import jesse.helpers as jh
    from vf.drive import session
    from vf.gen import candles as gc
    decl = _undecl(case['decl']) if case['defaults'] or case['dna'] else []
    rows = gc.prng_rows(7, 12, 0.5, 400)
    script = dict(rows=[{'act': 'long', 'entry': [[1, 0]], 'exits_at': 'none'}], tick=0.5, unit=0.1,
                  hyperparameters=decl, dna=case['dna'])
    syms = ['BTC-USDT', 'ETH-USDT'][:2 if case.get('two_routes') else 1]
    spec = dict(cfg=dict(type='futures', fee=0.0, balance=10000.0, leverage=2, mode='cross', warm_up=0),
                routes=[dict(symbol=s_, timeframe='1m') for s_ in syms], data=[], candles={s_: gc.prng_rows(7 + i, 12, 0.5, 400) for i, s_ in enumerate(syms)}, warmup=None,
                scripts={s_: script for s_ in syms}, fast=case.get('fast', False), hp=case['explicit'])
    r = session.run(spec, obs='off')
    if r['error']:
        return [(f"C19:precedence:raised-{r['error']['type']}", r['error']['msg'])], None
    got = r['final']['hp']['BTC-USDT']
    for s_ in syms[1:]:
        # every route's strategy is given the same values
        if r['final']['hp'].get(s_) != got:
            return [('C19:precedence:routes-see-different-values', f"route {s_} sees {r['final']['hp'].get(s_)!r}, the first route {got!r} (decl={case['decl']}, dna={case['dna']!r}, explicit={case['explicit']!r})")], None
    if case['explicit'] is not None:
        want, src = case['explicit'], 'explicit'
    elif case['dna']:
        want, src = jh.dna_to_hp(decl, case['dna']), 'dna'
    elif case['defaults'] and decl:
        want, src = {h['name']: h['default'] for h in decl}, 'defaults'
    else:
        want, src = None, 'none'
    if got != want or (want is not None and list(got.keys()) != list(want.keys())):
        return [(f'C19:precedence:expected-{src}', f'strategy.hp = {got!r}, expected {want!r} (decl={case["decl"]}, dna={case["dna"]!r}, explicit={case["explicit"]!r})')], src
    if want is not None:
        for k in want:
            if type(got[k]) is not type(want[k]):
                return [(f'C19:precedence:type-{src}', f'{k}: {got[k]!r} vs {want[k]!r}')], src
    return [], src


def replay(case):
    if case.get('kind') == 'precedence':
        return precedence_case(case)[0]
    cs = charset()
    decl = _undecl(case['decl'])
    vios = []
    if case.get('dna'):
        vios += check_decode(decl, case['dna'], cs)
    else:
        for g in cs:
            for pos in range(len(decl)):
                vios += check_decode(decl, cs[3] * pos + g + cs[5] * (len(decl) - 1 - pos), cs)
        vios += check_position_and_monotone(decl, cs, cs[7] * len(decl))
    return vios


def run_shard(acc, shard, nshards, seed, tier):
    from hypothesis import strategies as st
    from vf import runner
    known = runner.known_signatures('C19')
    cs = charset()
    if len(cs) != 80 or [ord(c) for c in cs] != list(range(40, 120)):
        acc.violation('C19:alphabet-changed', f'charset is {cs!r}', dict(kind='alphabet'))
    exhaustive(acc, shard, nshards)

    bound = st.one_of(st.integers(-1000, 1000).map(float), st.floats(-1e4, 1e4, allow_nan=False), st.sampled_from([0.0, 1.0, -1.0, 0.5, 1e-3]))

    @st.composite
    def decls(draw):
        n = draw(st.integers(1, 6))
        out = []
        for j in range(n):
            a, b = draw(bound), draw(bound)
            if a == b:
                b = a + 1
            lo, hi = min(a, b), max(a, b)
            typ = draw(st.sampled_from(['int', 'float']))
            if typ == 'int' and draw(st.booleans()):
                lo, hi = float(math.floor(lo)), float(math.ceil(hi))
                lo, hi = int(lo), int(hi) if int(hi) > int(lo) else int(lo) + 1
            out.append(dict(name=f'h{j}', type=typ, min=lo, max=hi, default=lo))
        dna = ''.join(draw(st.lists(st.sampled_from(cs), min_size=n, max_size=n)))
        return dict(kind='decode', decl=out, dna=dna)

    def chk(c):
        decl = _undecl(c['decl'])
        vios = check_decode(decl, c['dna'], cs)
        vios += check_position_and_monotone(decl[:2], cs, c['dna'][:2].ljust(len(decl[:2]), cs[0]))
        nt = any(h['min'] < 0 or h['min'] != int(h['min']) or h['max'] != int(h['max']) for h in c['decl'])
        return dict(key=c, nontrivial=nt, classes=['hyp-decl'], sample=c, violations=vios, sub='hypothesis-declarations')
    runner.hyp_search(acc, decls(), chk, 400 if tier == "quick" else 4000, seed, tier, known=known)

    @st.composite
    def prec(draw):
        d = draw(decls())
        decl = d['decl']
        for h in decl:
            span = h['max'] - h['min']
            h['default'] = h['min'] + (int(span) // 2 if h['type'] == 'int' else span / 3)
            if h['type'] == 'int':
                h['default'] = int(h['default'])
        use_defaults = draw(st.booleans())
        use_dna = draw(st.booleans())
        use_explicit = draw(st.booleans())
        explicit = None
        if use_explicit:
            explicit = {}
            for h in decl:
                v = draw(st.floats(h['min'], h['max'], allow_nan=False)) if h['type'] == 'float' else draw(st.integers(math.ceil(h['min']), max(math.ceil(h['min']), math.floor(h['max']))))
                if draw(st.integers(0, 4)) == 0:
                    v = 0 if h['type'] == 'int' else 0.0
                explicit[h['name']] = v
        return dict(kind='precedence', decl=decl, dna=d['dna'] if use_dna else '', explicit=explicit, defaults=use_defaults or use_dna,
                    fast=draw(st.booleans()), two_routes=draw(st.sampled_from([False, False, True])))

    def chk_prec(c):
        vios, src = precedence_case(c)
        nsrc = int(bool(c['defaults'])) + int(bool(c['dna'])) + int(c['explicit'] is not None)
        return dict(key=c, nontrivial=nsrc >= 2, classes=[f'precedence:{src}', f'sources={nsrc}'] + (['two-routes'] if c.get('two_routes') else []), sample=c if nsrc >= 2 else None,
                    violations=vios, sub='precedence-sessions')
    runner.hyp_search(acc, prec(), chk_prec, 60 if tier == "quick" else 600, seed + 9, tier, known=known, shrink_calls=40)
