"""C11 - research.backtest is a pure, repeatable function of its arguments."""
import json
import os
import subprocess
import sys

RULE = ("Hypothesis-generated call histories: 0-4 earlier research.backtest calls followed by a probe call. Earlier calls vary the "
        "exchange name (3 names), spot/futures, leverage, leverage mode, fee, balance, routes / symbols / timeframes, warm-up "
        "size, simulator mode, declared hyperparameters with none / some / all of them passed, decisions gated by an indicator that reads the configured candle window and by a step counter kept in the strategies' shared_vars and by a @cached strategy method; calls with an equal strategy script pass the very same strategy class object, and may abort part-way (a scripted hook raises at a drawn step, or an order is rejected). Each "
        "history runs in ONE fresh interpreter (subprocess) without any harness-side cleaning of jesse's globals; the probe "
        "alone runs in another fresh interpreter. The probe's full return value (metrics, NaN-aware, exact), its orders (all "
        "fields, in submission order), trades, final balances and equity samples must be identical, and the arguments passed "
        "to every call must be unmodified afterwards (candle arrays bit-identical). distinct = digest of the history; "
        "non-trivial = the history has an earlier call that differs from the probe in exchange name, account type, leverage, "
        "fee or warm-up, or that aborted, and the probe produced at least one order.")
ASSUMPTIONS = [
    "order ids / trade ids (uuids) are not compared",
    "the strategy classes are generated per call from the call's script (a pure function of the script)",
    "a probe that itself aborts is compared by error type and by the orders submitted before the abort",
]
TECHNIQUE = "differential testing across fresh interpreters: dirty-process probe vs clean-process probe over generated call histories with injected aborts"
MIN_NONTRIVIAL = {'quick': 12, 'thorough': 1500}
NAMES = ['VfEx', 'Other Exchange', 'Third']


def run_child(calls, timeout=600):
    home = os.environ.get('VERIF_HOME') or os.path.dirname(os.path.dirname(os.path.dirname(os.path.abspath(__file__))))
    repo = sys.path[0]
    env = dict(os.environ, PYTHONPATH=f'{repo}:{home}', PYTHONHASHSEED='0')
    env.pop('PYTEST_CURRENT_TEST', None)
    p = subprocess.run([sys.executable, '-m', 'vf.props.c11_child'], input=json.dumps(calls).encode(), stdout=subprocess.PIPE, stderr=subprocess.PIPE,
                       env=env, cwd=os.getcwd(), timeout=timeout)
    if p.returncode != 0 or not p.stdout:
        raise RuntimeError(f'child failed rc={p.returncode}: {p.stderr.decode()[-800:]}')
    return json.loads(p.stdout.decode())


def compare(dirty, clean):
    vios = []
    a, b = dirty['probe'], clean['probe']
    if 'Watchdog' in ((a['error'] or {}).get('type'), (b['error'] or {}).get('type')):
        return []  # stopped by the wall-clock watchdog: not a function of the arguments
    if b.get('args_modified'):
        vios.append(('C11:arguments-modified:' + '+'.join(b['args_modified']), f"research.backtest modified its arguments {b['args_modified']}"))
    for m in dirty.get('late_arg_mutations') or []:
        vios.append(('C11:arguments-of-an-earlier-call-modified-by-a-later-call:' + '+'.join(m['modified']),
                     f"the {m['modified']} passed to call {m['call']} of {m['of']} were modified in place by a later call"))
    if a.get('args_modified') and not b.get('args_modified'):
        vios.append(('C11:arguments-modified-after-history:' + '+'.join(a['args_modified']), f"{a['args_modified']}"))
    if (a['error'] or {}).get('type') != (b['error'] or {}).get('type'):
        vios.append(('C11:probe-outcome-differs', f"after the history the probe ended with {a['error']}, alone with {b['error']}"))
        return vios
    if len(a['orders']) != len(b['orders']):
        kind = 'no-orders-after-history' if (not a['orders'] and b['orders']) else 'order-count'
        vios.append((f'C11:probe-orders-differ:{kind}', f"{len(a['orders'])} orders after the history, {len(b['orders'])} alone"))
        return vios
    for i, (x, y) in enumerate(zip(a['orders'], b['orders'])):
        if x != y:
            keys = sorted(k for k in x if x[k] != y.get(k))
            vios.append((f'C11:probe-orders-differ:{keys[0]}', f'order {i}: after the history {x}, alone {y}'))
            return vios
    if a['trades'] != b['trades']:
        i = next((i for i, (x, y) in enumerate(zip(a['trades'], b['trades'])) if x != y), min(len(a['trades']), len(b['trades'])))
        x = a['trades'][i] if i < len(a['trades']) else None
        y = b['trades'][i] if i < len(b['trades']) else None
        keys = sorted(k for k in (x or {}) if y is None or x[k] != y.get(k))
        vios.append((f"C11:probe-trades-differ:{keys[0] if keys else 'count'}", f'trade {i}: after the history {x}, alone {y}'))
        return vios
    if a['accounts'] != b['accounts'] or a['daily_balance'] != b['daily_balance']:
        vios.append(('C11:probe-balances-differ', f"after the history {a['accounts']} {a['daily_balance']}, alone {b['accounts']} {b['daily_balance']}"))
        return vios
    ra, rb = (a['result'] or {}).get('metrics'), (b['result'] or {}).get('metrics')
    if ra != rb:
        keys = sorted(k for k in (ra or {}) if (rb or {}).get(k) != ra[k]) if isinstance(ra, dict) and isinstance(rb, dict) else ['<shape>']
        vios.append((f'C11:probe-metrics-differ:{keys[0] if keys else "?"}', f'metrics differ in {keys}: after the history {[ra.get(k) for k in keys[:4]] if isinstance(ra, dict) else ra}, alone {[rb.get(k) for k in keys[:4]] if isinstance(rb, dict) else rb}'))
    return vios


def run_history(history):
    dirty = run_child(history)
    clean = run_child(history[-1:])
    vios = compare(dirty, clean)
    return vios, dirty, clean


def replay(case):
    return run_history(case['history'])[0]


def differs(a, b):
    ca, cb = a['cfg'], b['cfg']
    return (ca.get('exchange') != cb.get('exchange') or ca['type'] != cb['type'] or ca.get('leverage') != cb.get('leverage') or ca['fee'] != cb['fee']
            or ca.get('warm_up') != cb.get('warm_up') or ca.get('mode') != cb.get('mode'))


def run_shard(acc, shard, nshards, seed, tier):
    from hypothesis import strategies as st
    from vf import runner
    from vf.gen import sessions
    known = runner.known_signatures('C11')
    base = sessions.session(minutes=(60, 140), kinds=('futures', 'futures', 'spot'), max_data=1, data_only_symbol=True, align_len=True, modes=('cross', 'isolated'), program=dict(busy=True), logs=(False, False, False, True))

    @st.composite
    def call(draw, probe=False):
        spec = draw(base)
        spec['cfg']['exchange'] = draw(st.sampled_from(NAMES))
        kind = 'ok' if probe else draw(st.sampled_from(['ok', 'ok', 'ok', 'hook-raises', 'oversize']))
        if kind == 'hook-raises':
            s = spec['routes'][0]['symbol']
            spec['scripts'][s]['raise_at'] = [draw(st.sampled_from(['before', 'after', 'on_open_position', 'update_position'])), draw(st.integers(0, 12))]
        elif kind == 'oversize':
            s = spec['routes'][0]['symbol']
            spec['scripts'][s]['unit'] = spec['scripts'][s]['unit'] * 40
        if draw(st.sampled_from([True, True, True, False])):
            for sc in spec['scripts'].values():
                sc['gate'] = 'obv'  # decisions read an indicator whose value depends on the configured candle window
        if draw(st.booleans()):
            for sc in spec['scripts'].values():
                sc['cached'] = True  # decisions read a @cached strategy method that is also evaluated in terminate()
        if draw(st.booleans()):
            for sc in spec['scripts'].values():
                sc['shared'] = True  # steps are counted in self.shared_vars and decisions read the count
        hpk = draw(st.sampled_from(['none', 'none', 'declared-only', 'partial', 'partial', 'full']))
        if hpk != 'none':
            # strategies declare hyperparameters (the entry size is scaled by `mult`); the caller passes none, some or all of them
            for sc in spec['scripts'].values():
                sc['hyperparameters'] = [dict(name='mult', type='float', min=0.25, max=2.0, default=draw(st.sampled_from([0.5, 1.0, 1.5]))),
                                         dict(name='other', type='int', min=1, max=10, default=draw(st.integers(1, 10)))]
            spec['hp'] = {'declared-only': None, 'partial': draw(st.sampled_from([{'other': 7}, {'mult': 0.75}])), 'full': {'mult': 1.25, 'other': 2}}[hpk]
        spec['reuse_route_objects'] = draw(st.sampled_from([False, False, True]))  # pass the previous call's route list objects, edited in place
        spec.pop('n', None)
        return spec

    @st.composite
    def histories(draw):
        probe = draw(call(probe=True))
        n = draw(st.sampled_from([1, 2, 1, 2, 3, 0] + ([4] if tier == 'thorough' else [])))
        earlier = []
        if n and draw(st.integers(0, 5)) == 0:
            # directed shape: a probe WITHOUT warm-up candles whose decisions read the indicator window, after a session that had some
            probe['cfg']['warm_up'] = 0
            probe['warmup'] = None
            for sc in probe['scripts'].values():
                sc['gate'] = 'obv'
            c = draw(call().filter(lambda c_: c_['cfg']['warm_up'] > 0))
            for sc in c['scripts'].values():
                sc['gate'] = 'obv'
            earlier.append(c)
            n -= 1
        for _ in range(n):
            style = draw(st.sampled_from(['fresh', 'fresh', 'same-name-other-config', 'identical', 'same-strategy-other-candles']))
            if style == 'identical':
                c = json.loads(json.dumps(probe))
            elif style == 'same-strategy-other-candles':
                # the same strategy class (equal script) run on another market: same routes and scripts, other candles
                c = json.loads(json.dumps(probe))
                other = draw(call())
                donor = list(other['candles'].values())
                n0 = min(len(v) for v in c['candles'].values())
                if all(len(d) >= n0 for d in donor):
                    for i, k in enumerate(c['candles']):
                        c['candles'][k] = donor[i % len(donor)][:len(c['candles'][k])]
            else:
                c = draw(call())
                if style == 'same-name-other-config':
                    c['cfg']['exchange'] = probe['cfg']['exchange']
            earlier.append(c)
        return earlier + [probe]

    def chk(h):
        vios, dirty, clean = run_history(h)
        probe = h[-1]
        summ = dirty['summaries']
        nt = (any(differs(c, probe) for c in h[:-1]) or any(s['error'] for s in summ[:-1])) and len(clean['probe']['orders']) >= 1
        cl = [f'earlier-calls={len(h) - 1}'] + (['earlier-call-aborted'] if any(s['error'] for s in summ[:-1]) else []) + \
             (['other-exchange-name'] if any(c['cfg']['exchange'] != probe['cfg']['exchange'] for c in h[:-1]) else []) + \
             (['same-name-other-type'] if any(c['cfg']['exchange'] == probe['cfg']['exchange'] and c['cfg']['type'] != probe['cfg']['type'] for c in h[:-1]) else []) + \
             (['probe-aborts'] if clean['probe']['error'] else [])
        brief = [dict(cfg=c['cfg'], routes=c['routes'], data=c['data'], fast=c['fast'], outcome=s) for c, s in zip(h, summ)]
        return dict(key=h, nontrivial=nt, classes=cl, violations=vios, sample=brief if nt else None)
    runner.hyp_search(acc, histories(), chk, 7 if tier == 'quick' else 200, seed, tier, known=known, shrink_calls=6, max_shrink_sigs=1,
                      describe=lambda h: dict(history=h))
