"""C04 - spot balances equal a cash-account model; no overspending or overselling."""
from fractions import Fraction as F

RULE = ("Hypothesis-generated operation histories on a real spot session state (bench driver, 1-2 symbols, fee drawn): "
        "submit buy/sell x MARKET/LIMIT/STOP (sizes drawn relative to the free quote / free base at that moment: 0.1x .. 1.5x, "
        "exactly 1.0x, and literal decimal quantities such as 0.1, 0.3, 1e-8 multiples), cancel(any active), execute(any "
        "active), move price. After every operation the quote balance, every base balance and every position size are "
        "compared with the SpotAccount reference fed from the observed submit/cancel/fill events; an InsufficientBalance "
        "is required exactly when the reference inequality says so (a 1e-9 relative band around equality accepts either). "
        "A rejected submission ends the history. In addition every generated spot session (session driver, both simulators) is "
        "replayed into the same reference from its trace and compared at every strategy hook. distinct = digest of the op list + config; non-trivial = the history has a "
        "cancel followed by a later submission on the same side, or a partial sell, or a rejection.")
ASSUMPTIONS = [
    "balances are compared with 1e-9 relative tolerance (jesse multiplies qty*price in doubles before its decimal bookkeeping)",
    "sells of every type are drawn both reduce-only (what Broker.reduce_position_at submits) and plain (Broker.sell_at / start_profit_at)",
    "MARKET orders are executed in the same operation that submits them (the simulator flushes them in the same step)",
    "the attached strategy layer cancels everything resting when the position closes; the reference is fed those observed cancellations",
    "'sell exactly the free base must be accepted' (ladder / flatten operations) is only demanded while every order quantity so far has at most 10 significant digits: with 16-digit quantities even decimal-exact bookkeeping rounds to the nearest double at every step",
]
TECHNIQUE = "model-based testing: generated op histories against a cash-account reference fed from observed order events"
MIN_NONTRIVIAL = {'quick': 400, 'thorough': 8000}
SYMS = ['BTC-USDT', 'ETH-USDT']
TOL = F(1, 10 ** 9)


def close_enough(a, b):
    a, b = F(a), F(b)
    return abs(a - b) <= TOL * max(1, abs(a), abs(b))


def run_history(cfg, ops):
    """Returns (violations, flags, applied_ops)."""
    from vf.drive.bench import Bench, EX
    from vf.ref.accounts import SpotAccount, fr
    from jesse.exceptions import InsufficientBalance
    syms = SYMS[:cfg['nsym']]
    prices = {s: 100.0 if i == 0 else 25.5 for i, s in enumerate(syms)}
    b = Bench('spot', cfg['fee'], cfg['balance'], symbols=syms, prices=prices)
    model = SpotAccount(cfg['balance'], cfg['fee'])
    vios, flags, applied = [], set(), []
    _order = b.order

    def order_(sym_, side_, typ_, qty_, price_, reduce_only=False):
        note_qty(qty_)
        return _order(sym_, side_, typ_, qty_, price_, reduce_only=reduce_only)
    b.order = order_
    seen = 0
    live = []  # order objects still active by our knowledge
    cancelled_side = set()
    ended = False
    exact = [True]  # every order quantity so far has at most 10 significant decimal digits

    def note_qty(q):
        r_ = repr(float(q))
        if 'e' in r_ or len(r_.replace('.', '').replace('-', '').strip('0')) > 10:
            exact[0] = False

    def feed():
        nonlocal seen
        evs = b.rec.events
        while seen < len(evs):
            e = evs[seen]
            seen += 1
            if e['ev'] == 'submit':
                model.submit(e['ord'], e['symbol'], e['side'], e['type'], e['qty'], e['price'])
            elif e['ev'] == 'cancel' and e['before'] == 'ACTIVE' and e['after'] == 'CANCELED':
                if e['ord'] in model.resting:
                    side = model.resting[e['ord']][1]
                    model.cancel(e['ord'])
                    cancelled_side.add(side)
            elif e['ev'] == 'execute' and e.get('phase') == 'end' and e['before'] == 'ACTIVE' and e['after'] == 'EXECUTED':
                if e['ord'] in model.resting:
                    o = model.resting[e['ord']]
                    if o[1] == 'sell' and o[3] < model.base_of(o[0]):
                        flags.add('partial-sell')
                    model.fill(e['ord'])

    def compare(what):
        ex = b.exchange
        got_q = ex.assets['USDT']
        if not close_enough(fr(got_q), model.quote):
            vios.append((f'C04:{what}:quote-balance', f'quote {got_q!r} vs reference {float(model.quote)!r}'))
        if got_q < -1e-9:
            vios.append((f'C04:{what}:negative-quote', f'{got_q!r}'))
        for s in syms:
            base = ex.assets[s.split('-')[0]]
            if not close_enough(fr(base), model.base_of(s)):
                vios.append((f'C04:{what}:base-balance', f'{s} base {base!r} vs reference {float(model.base_of(s))!r}'))
            if base < -1e-12:
                vios.append((f'C04:{what}:negative-base', f'{s} {base!r}'))
            pq = b.positions[s].qty
            if pq != base:
                vios.append((f'C04:{what}:position-size-not-identical-to-base', f'{s} position.qty {pq!r} vs base balance {base!r} (an order for position.qty would be {"rejected" if pq > base else "short of the balance"})'))
            if not close_enough(fr(pq), fr(base)):
                vios.append((f'C04:{what}:position-size-differs-from-base', f'{s} position.qty {pq!r} vs base balance {base!r}'))
            if pq < -1e-12:
                vios.append((f'C04:{what}:short-position-in-spot', f'{s} position.qty {pq!r}'))

    expanded = []
    for op in ops:
        if op[0] == 'ladder_flatten':
            expanded += [('ladder', op[1], op[2], op[3]), ('flatten', op[1], op[4])]
        elif op[0] == 'trade_cycle':
            # one whole trade the way strategies run it: buy, take-profit + stop-loss for the full size resting together, one of them
            # fills, the other is cancelled, buy again, then an exit of a drawn size (1.0 = all of it, above 1 = must be rejected)
            _, si, fill_kind, probe_kind, probe_size, poff = op
            other = 'STOP' if fill_kind == 'LIMIT' else 'LIMIT'
            expanded += [('submit', si, 'buy', 'MARKET', 0.5, 0, False), ('bracket', si, 1.0, 1.0), ('execute_kind', si, fill_kind),
                         ('cancel_kind', si, other), ('submit', si, 'buy', 'MARKET', 0.5, 0, False),
                         ('submit', si, 'sell', probe_kind, probe_size, poff, True)]
        else:
            expanded.append(op)
    ops = expanded
    try:
        for op in ops:
            kind = op[0]
            if kind == 'price':
                s = syms[op[1] % len(syms)]
                newp = max(0.1, round(b.positions[s].current_price + op[2] * 0.1, 1))
                b.set_price(s, newp)
                applied.append(op)
                what = 'move-price'
            elif kind == 'submit':
                _, si, side, typ, size_code, poff, ro = op
                s = syms[si % len(syms)]
                cur = b.positions[s].current_price
                price = cur if typ == 'MARKET' else max(0.1, round(cur + poff * 0.1, 1))
                if side == 'buy':
                    free = model.quote
                    base_qty = float(free) / price if price else 0.0
                else:
                    kindk = 'LIMIT' if typ == 'MARKET' else typ
                    base_qty = float(model.base_of(s) - model.resting_sells(s, kindk))
                if isinstance(size_code, str):
                    qty = float(size_code)
                else:
                    qty = base_qty * size_code
                    if size_code != 1.0:
                        qty = float(f'{qty:.8f}')
                if qty <= 0:
                    continue
                reduce_only = bool(ro and side == 'sell')  # resting sells too: Broker.sell_at / start_profit_at submit plain orders, reduce_position_at reduce-only ones
                lhs, rhs = model.accepts(s, side, typ, qty, price)
                ambiguous = abs(lhs - rhs) <= TOL * max(1, abs(rhs))
                if side == 'sell' and size_code == 1.0:
                    # sell exactly what the account itself reports as free (what `position.qty` based exits do): must be accepted
                    from decimal import Decimal
                    kindk2 = 'LIMIT' if typ == 'MARKET' else typ
                    impl_free = float(Decimal(repr(float(b.exchange.assets[s.split('-')[0]]))) - Decimal(repr(float(model.resting_sells(s, kindk2)))))
                    if impl_free > 0:
                        qty = impl_free
                        lhs, rhs = model.accepts(s, side, typ, qty, price)
                        if exact[0]:
                            # (only while every quantity so far is a short decimal: once 17-digit quantities rest in the book, the sum
                            # of a resting sell and this one is rounded to the nearest double and may exceed the balance by an ulp -
                            # the same limit as for the ladder / flatten operations, see ASSUMPTIONS)
                            ambiguous = False if lhs <= rhs or abs(lhs - rhs) <= TOL * max(1, abs(rhs)) else ambiguous
                            if abs(lhs - rhs) <= TOL * max(1, abs(rhs)):
                                lhs = rhs  # the reported balance is the reference point: selling all of it is affordable by definition
                            flags.add('sell-exactly-the-reported-free-base')
                        else:
                            ambiguous = abs(lhs - rhs) <= TOL * max(1, abs(rhs))
                expect_reject = lhs > rhs
                what = f'submit-{side}-{typ}'
                applied.append(['submit', si, side, typ, size_code, poff, ro])
                if side in cancelled_side:
                    flags.add('submission-after-cancel-on-same-side')
                try:
                    o = b.order(s, side, typ, qty, price, reduce_only=reduce_only)
                except InsufficientBalance:
                    flags.add('rejection')
                    if not expect_reject and not ambiguous:
                        vios.append((f'C04:{what}:rejected-although-affordable',
                                     f'{side} {typ} qty={qty!r} price={price!r} rejected; needs {float(lhs)!r}, available {float(rhs)!r}'))
                    ended = True
                    break
                if expect_reject and not ambiguous:
                    vios.append((f'C04:{what}:accepted-although-unaffordable' + (':after-cancel' if side in cancelled_side else ''),
                                 f'{side} {typ} qty={qty!r} price={price!r} accepted; needs {float(lhs)!r} but only {float(rhs)!r} available'))
                    break
                if ambiguous:
                    flags.add('boundary-ambiguous')
                live.append(o)
                if typ == 'MARKET':
                    feed()
                    o.execute()
            elif kind == 'bracket':
                # take-profit (LIMIT sell above) and stop-loss (STOP sell below) resting at the same time, as strategies declare them
                s = syms[op[1] % len(syms)]
                cur = b.positions[s].current_price
                free_l = float(model.base_of(s) - model.resting_sells(s, 'LIMIT'))
                free_s = float(model.base_of(s) - model.resting_sells(s, 'STOP'))
                applied.append(op)
                what = 'bracket'
                for typ, free, frac, price in (('LIMIT', free_l, op[2], round(cur + 5, 1)), ('STOP', free_s, op[3], max(0.1, round(cur - 5, 1)))):
                    qty = float(f'{free * frac:.8f}')
                    if frac == 1.0:
                        from decimal import Decimal
                        qty = float(Decimal(repr(float(b.exchange.assets[s.split('-')[0]]))) - Decimal(repr(float(model.resting_sells(s, typ)))))  # exactly the reported free base
                    if qty <= 0:
                        continue
                    lhs, rhs = model.accepts(s, 'sell', typ, qty, price)
                    if lhs > rhs:
                        continue
                    ambiguous = abs(lhs - rhs) <= TOL * max(1, abs(rhs))
                    try:
                        # plain (not reduce-only) exits are what Broker.sell_at / start_profit_at submit; reduce-only ones come from reduce_position_at
                        live.append(b.order(s, 'sell', typ, qty, price, reduce_only=not (len(op) > 4 and op[4])))
                        if len(op) > 4 and op[4]:
                            flags.add('plain-sell-bracket')
                    except InsufficientBalance:
                        flags.add('rejection')
                        if not ambiguous:
                            vios.append((f'C04:bracket-sell-{typ}:rejected-although-affordable', f'sell {typ} qty={qty!r} rejected; needs {float(lhs)!r}, available {float(rhs)!r}'))
                        ended = True
                        break
                    feed()
                if ended:
                    break
            elif kind == 'ladder':
                # a laddered exit: 2-3 resting sells of ONE kind that together sell exactly the free base (decimal split)
                from decimal import Decimal
                s = syms[op[1] % len(syms)]
                typ, parts = op[2], op[3]
                free = Decimal(repr(float(b.exchange.assets[s.split('-')[0]]))) - Decimal(repr(float(model.resting_sells(s, typ))))
                if free <= 0:
                    continue
                applied.append(op)
                what = f'ladder-sell-{typ}'
                cur = b.positions[s].current_price
                qs, rest = [], free
                for f_ in parts[:-1]:
                    q_ = (free * Decimal(repr(f_))).quantize(Decimal('0.001'))
                    if 0 < q_ < rest:
                        qs.append(q_)
                        rest -= q_
                qs.append(rest)
                import math as _m
                fq = [float(x) for x in qs]
                while sum(Decimal(repr(x)) for x in fq) > free and fq[-1] > 0:
                    fq[-1] = _m.nextafter(fq[-1], 0.0)  # the double nearest to the remainder may lie above it
                qs = fq
                for i_, q_ in enumerate(qs):
                    price = round(cur + 3 + i_, 1) if typ == 'LIMIT' else max(0.1, round(cur - 3 - i_, 1))
                    try:
                        live.append(b.order(s, 'sell', typ, float(q_), price, reduce_only=True))
                    except InsufficientBalance:
                        flags.add('rejection')
                        if exact[0]:
                            vios.append((f'C04:{what}:rejected-although-the-ladder-sums-to-the-free-base', f'ladder {[float(x) for x in qs]} of free base {float(free)!r}: row {i_} rejected'))
                        ended = True
                        break
                    feed()
                flags.add('ladder')
                if ended:
                    break
            elif kind == 'flatten':
                # consolidate: cancel every resting sell of the symbol, then sell exactly what the account reports as free
                s = syms[op[1] % len(syms)]
                typ = op[2]
                mine = [o for o in live if o.is_active and o.symbol == s and o.side == 'sell']
                if len(mine) < 1:
                    continue
                applied.append(op)
                for o in mine:
                    o.cancel()
                feed()
                compare('flatten-cancel')
                if vios:
                    break
                from decimal import Decimal
                qty = float(Decimal(repr(float(b.exchange.assets[s.split('-')[0]]))))
                if qty <= 0:
                    continue
                cur = b.positions[s].current_price
                price = cur if typ == 'MARKET' else (round(cur + 5, 1) if typ == 'LIMIT' else max(0.1, round(cur - 5, 1)))
                lhs, rhs = model.accepts(s, 'sell', typ, qty, price)
                flags.add('submission-after-cancel-on-same-side')
                flags.add('flatten')
                what = f'flatten-sell-{typ}'
                try:
                    o2 = b.order(s, 'sell', typ, qty, price, reduce_only=True)
                except InsufficientBalance:
                    flags.add('rejection')
                    if exact[0] and (abs(lhs - rhs) <= TOL * max(1, abs(rhs)) or lhs < rhs):
                        vios.append((f'C04:{what}:rejected-although-nothing-else-rests', f'after cancelling {len(mine)} resting sells, a sell of the whole reported base {qty!r} was rejected (reference: needs {float(lhs)!r}, has {float(rhs)!r})'))
                    break
                live.append(o2)
                if typ == 'MARKET':
                    feed()
                    o2.execute()
            elif kind == 'modify':
                # what strategies do to change an order: cancel it and submit a replacement of another size
                act = [o for o in live if o.is_active and o.type != 'MARKET']
                if not act:
                    continue
                o = act[op[1] % len(act)]
                s, side, typ, oldq, price = o.symbol, o.side, o.type, abs(o.qty), o.price
                applied.append(op)
                o.cancel()
                feed()
                compare('modify-cancel')
                if vios:
                    break
                if side == 'buy':
                    free = float(model.quote) / price
                else:
                    free = float(model.base_of(s) - model.resting_sells(s, typ))
                qty = {'same': oldq, 'bigger': oldq * 1.5, 'max': free, 'max+released': free + 0.9 * oldq, 'half': oldq / 2}[op[2]]
                qty = float(f'{qty:.8f}') if op[2] != 'max' else qty
                if qty <= 0:
                    continue
                lhs, rhs = model.accepts(s, side, typ, qty, price)
                ambiguous = abs(lhs - rhs) <= TOL * max(1, abs(rhs))
                what = f'resubmit-{side}-{typ}'
                flags.add('submission-after-cancel-on-same-side')
                try:
                    o2 = b.order(s, side, typ, qty, price, reduce_only=(side == 'sell'))
                except InsufficientBalance:
                    flags.add('rejection')
                    if not (lhs > rhs) and not ambiguous:
                        vios.append((f'C04:{what}:rejected-although-affordable', f'{side} {typ} qty={qty!r} price={price!r} rejected; needs {float(lhs)!r}, available {float(rhs)!r}'))
                    break
                if lhs > rhs and not ambiguous:
                    vios.append((f'C04:{what}:accepted-although-unaffordable:after-cancel',
                                 f'{side} {typ} qty={qty!r} price={price!r} accepted after cancelling {oldq!r}; needs {float(lhs)!r} but only {float(rhs)!r} available'))
                    break
                live.append(o2)
            elif kind in ('cancel_kind', 'execute_kind'):
                s = syms[op[1] % len(syms)]
                act = [o for o in live if o.is_active and o.symbol == s and o.side == 'sell' and o.type == op[2]]
                if not act:
                    continue
                o = act[-1]
                applied.append(op)
                what = kind.split('_')[0] + '-' + o.side + '-' + o.type
                if kind == 'cancel_kind':
                    o.cancel()
                    cancelled_side.add('sell')
                else:
                    b.positions[o.symbol].current_price = o.price
                    o.execute()
                    flags.add('exit-filled-with-its-sibling-resting')
            elif kind in ('cancel', 'execute'):
                act = [o for o in live if o.is_active]
                if not act:
                    continue
                o = act[op[1] % len(act)]
                applied.append(op)
                what = kind + '-' + o.side + '-' + o.type
                if kind == 'cancel':
                    o.cancel()
                else:
                    b.positions[o.symbol].current_price = o.price
                    o.execute()
            else:
                raise ValueError(kind)
            feed()
            compare(what)
            if vios:
                break
    except Exception as e:  # noqa
        import traceback
        vios.append((f'C04:raised-{type(e).__name__}', traceback.format_exc()[-600:]))
    finally:
        b.close()
    return vios, flags, applied


def session_replay(spec):
    """Every spot session of the session driver replayed into the cash-account reference from its trace, compared at every hook."""
    from vf.drive import session
    from vf.ref.accounts import SpotAccount, fr
    r = session.run(spec, obs='light')
    cfg = spec['cfg']
    sim = 'fast' if spec.get('fast') else 'step'
    model = SpotAccount(cfg['balance'], cfg['fee'])
    vios, flags = [], set()
    for e in r['trace']:
        if e['ev'] == 'submit':
            model.submit(e['ord'], e['sym'], e['side'], e['type'], e['qty'], e['price'])
        elif e['ev'] == 'cancel' and e['before'] == 'ACTIVE' and e['ord'] in model.resting:
            model.cancel(e['ord'])
            flags.add('cancel')
        elif e['ev'] == 'execute' and e['before'] == 'ACTIVE' and e['ord'] in model.resting:
            o = model.resting[e['ord']]
            if o[1] == 'sell':
                flags.add('sell-fill')
            model.fill(e['ord'])
        elif e['ev'] == 'hook' and 'accounts' in e:
            a = e['accounts']
            where = f"hook {e['name']} idx={e['idx']} phase={e['phase']}"
            if not close_enough(fr(a['assets']['USDT']), model.quote):
                vios.append((f'C04:session:sim={sim}:quote-balance', f"{where}: quote {a['assets']['USDT']!r} vs reference {float(model.quote)!r}"))
            if a['assets']['USDT'] < -1e-9:
                vios.append((f'C04:session:sim={sim}:negative-quote', f"{where}: {a['assets']['USDT']!r}"))
            for sym, p in a['positions'].items():
                base = a['assets'][sym.split('-')[0]]
                if not close_enough(fr(base), model.base_of(sym)):
                    vios.append((f'C04:session:sim={sim}:base-balance', f"{where}: {sym} base {base!r} vs reference {float(model.base_of(sym))!r}"))
                if p['qty'] != base:
                    vios.append((f'C04:session:sim={sim}:position-size-not-identical-to-base', f"{where}: {sym} position.qty {p['qty']!r} vs base {base!r}"))
                if base < -1e-12 or p['qty'] < -1e-12:
                    vios.append((f'C04:session:sim={sim}:negative-base-or-short', f"{where}: {sym} base {base!r} position {p['qty']!r}"))
            if vios:
                break
    return vios, flags, r


def replay(case):
    if case.get('kind') == 'session':
        return session_replay(case['spec'])[0]
    return run_history(case['cfg'], [tuple(o) for o in case['ops']])[0]


def run_shard(acc, shard, nshards, seed, tier):
    from hypothesis import strategies as st
    from vf import runner
    known = runner.known_signatures('C04')
    sizes = st.sampled_from([0.1, 0.25, 0.3, 0.5, 0.5, 0.75, 0.99, 1.0, 0.1, 0.25, 0.3, 0.5, 0.5, 0.75, 0.99, 1.0, 1.01, 1.5,
                             '0.1', '0.3', '0.00000007', '1.1', '0.2', '0.7'])
    submit = st.tuples(st.just('submit'), st.integers(0, 1), st.sampled_from(['buy', 'buy', 'sell', 'sell', 'sell']),
                       st.sampled_from(['MARKET', 'LIMIT', 'LIMIT', 'STOP']), sizes, st.integers(-30, 30), st.booleans())
    modify = st.tuples(st.just('modify'), st.integers(0, 9), st.sampled_from(['same', 'bigger', 'max', 'max+released', 'half']))
    bracket = st.tuples(st.just('bracket'), st.integers(0, 1), st.sampled_from([0.25, 0.5, 0.6, 1.0]), st.sampled_from([0.5, 0.999, 1.0, 1.0]), st.booleans())
    flatten = st.tuples(st.just('flatten'), st.integers(0, 1), st.sampled_from(['MARKET', 'LIMIT', 'STOP']))
    ladder = st.tuples(st.just('ladder'), st.integers(0, 1), st.sampled_from(['LIMIT', 'STOP']),
                       st.sampled_from([(0.3, 0.7), (0.5, 0.5), (0.3, 0.3, 0.4), (0.1, 0.9), (0.7, 0.3), (0.25, 0.5, 0.25)]))
    splits = st.sampled_from([(0.3, 0.7), (0.5, 0.5), (0.3, 0.3, 0.4), (0.1, 0.9), (0.7, 0.3), (0.25, 0.5, 0.25), (0.3003, 0.6997), (0.11, 0.89)])
    ladder_flatten = st.tuples(st.just('ladder_flatten'), st.integers(0, 1), st.sampled_from(['LIMIT', 'STOP']), splits, st.sampled_from(['MARKET', 'LIMIT', 'STOP']))
    trade_cycle = st.tuples(st.just('trade_cycle'), st.integers(0, 1), st.sampled_from(['LIMIT', 'STOP']), st.sampled_from(['LIMIT', 'STOP', 'MARKET']),
                            st.sampled_from([1.0, 1.01, 1.5, 1.5]), st.integers(-30, 30))
    op = st.one_of(submit, submit, submit, modify, modify, bracket, flatten, ladder, ladder_flatten, ladder_flatten, ladder_flatten, trade_cycle, trade_cycle, st.tuples(st.just('execute'), st.integers(0, 9)), st.tuples(st.just('execute'), st.integers(0, 9)), st.tuples(st.just('cancel'), st.integers(0, 9)), st.tuples(st.just('cancel'), st.integers(0, 9)),
                   st.tuples(st.just('execute'), st.integers(0, 9)), st.tuples(st.just('price'), st.integers(0, 1), st.integers(-20, 20)))
    cfgs = st.fixed_dictionaries(dict(fee=st.sampled_from([0.0, 0.001, 0.00075, 0.0075]), balance=st.sampled_from([10_000.0, 1_000.0, 99.99]),
                                       nsym=st.integers(1, 2)))
    strat = st.tuples(cfgs, st.lists(op, min_size=3, max_size=30 if tier == 'quick' else 60))

    def chk(case):
        cfg, ops = case
        vios, flags, applied = run_history(cfg, ops)
        nt = bool(flags & {'submission-after-cancel-on-same-side', 'partial-sell', 'rejection'})
        d = dict(cfg=cfg, ops=applied)
        return dict(key=d, nontrivial=nt, classes=sorted(flags), sample=d if len(applied) < 9 else None, violations=vios, _d=d)
    runner.hyp_search(acc, strat, lambda c: dict(chk(c), sub='bench-histories'), 500 if tier == 'quick' else 8000, seed, tier, known=known,
                      describe=lambda c: dict(cfg=c[0], ops=[list(o) for o in c[1]]))

    from vf.gen import sessions
    sess = sessions.session(minutes=(60, 180) if tier == 'quick' else (60, 400), kinds=('spot',), max_data=0, warmup=(False,), align_len=True,
                            fees=(0.0, 0.001, 0.00075, 0.0075), program=dict(busy=True, oversize=True))

    def chk_s(spec):
        vios, flags, r = session_replay(spec)
        nt = 'sell-fill' in flags
        return dict(key=('s', spec['cfg'], spec['routes'], spec['scripts'], spec['candles'], spec['fast']), nontrivial=nt,
                    classes=['session:' + f for f in sorted(flags)] + ['session:' + ('fast' if spec['fast'] else 'step')], violations=vios, sub='session-replay',
                    sample=dict(cfg=spec['cfg'], routes=spec['routes'], fast=spec['fast'], minutes=spec['n'], orders=len(r['orders'])) if nt else None)
    runner.hyp_search(acc, sess, chk_s, 24 if tier == 'quick' else 800, seed + 11, tier, known=known, shrink_calls=15, max_shrink_sigs=1,
                      describe=lambda spec: dict(kind='session', spec=spec))
