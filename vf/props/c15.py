"""C15 - core indicators match their textbook definitions, ranges and orderings."""
import math

import numpy as np

RULE = ("Hypothesis-drawn cases (series kind incl. constant / monotone / alternating / spikes, length 130..600 (1500 in the "
        "thorough tier), price scale 1e-6 / 1e-3 / 100 / 25000 / 1e6, period 2..60, source type, matype) and, per case, a "
        "battery of checks against vf/ref/ta_ref.py: exact comparison (rtol 1e-9, atol 1e-9 x scale; 1e-6 x scale for the "
        "variance-by-moments family) wherever the textbook value is a function of a complete trailing window (sma, wma, "
        "trima, stddev, var, bollinger, donchian, willr, stochf/stoch, cci, roc/rocp/rocr/rocr100, mom, mfi, obv, trange, natr (= atr/close), typprice/medprice/avgprice/"
        "wclprice, midpoint, midprice); recurrence-step identities on jesse's own consecutive outputs (ema, wilders, atr, dm, "
        "macd signal/hist) and value-after-decay against a reference started from a different seed (ema, dema, tema, smma, "
        "wilders, rsi, atr, macd, keltner, adx) at the indices where the seed's influence is bounded below 1e-7 x scale; "
        "the ma() selector is array-equal to the selected moving average for every documented matype, sequential and not; "
        "range / ordering / non-negativity / price-homogeneity laws on all outputs. distinct = digest of the case; "
        "non-trivial = series is not constant and period < length/2.")
ASSUMPTIONS = [
    "start-up values (incomplete window, seed convention) are not compared: the reference is NaN there and NaN means unconstrained",
    "points where the textbook value is undefined (zero range in %R / %K, zero mean deviation in CCI, no money flow in MFI) are not compared",
    "stddev/var are population (ddof=0) statistics multiplied by nbdev, as TA-Lib defines them",
    "rma is excluded from the smoother checks: it is non-causal on the tree (C13 known finding)",
]
TECHNIQUE = "differential testing against independent loop implementations + recurrence / metamorphic (homogeneity) relations over generated parameters"
MIN_NONTRIVIAL = {'quick': 100, 'thorough': 3000}

MA_TABLE = {0: 'sma', 1: 'ema', 2: 'wma', 3: 'dema', 4: 'tema', 5: 'trima', 6: 'kama', 9: 'fwma', 10: 'hma', 11: 'linearreg', 12: 'wilders',
            13: 'sinwma', 14: 'supersmoother', 15: 'supersmoother_3_pole', 16: 'gauss', 17: 'high_pass', 18: 'high_pass_2_pole', 20: 'jma',
            21: 'reflex', 22: 'trendflex', 23: 'smma', 24: 'vwma', 25: 'pwma', 26: 'swma', 27: 'alma', 28: 'hwma', 29: 'vwap', 30: 'nma',
            31: 'edcf', 32: 'mwdx', 33: 'maaq', 34: 'srwma', 35: 'sqwma', 36: 'vpwma', 37: 'cwma', 38: 'jsa', 39: 'epma'}
NO_PERIOD = {28, 29, 32}


class Checker:
    def __init__(self, case):
        from vf.gen import indicators as gi
        self.case = case
        self.c = gi.make_candles(case['kind'], case['n'], case['seed'], case['scale'])
        self.p = case['period']
        self.st = case['source_type']
        self.scale = float(np.abs(self.c[:, 1:5]).max())
        self.vscale = float(np.abs(self.c[:, 5]).max())
        self.vios = []
        self.n_checks = 0

    def v(self, ind, aspect, msg):
        self.vios.append((f'C15:{ind}:{aspect}', f'{msg} [{self.tag()}]'))

    def tag(self):
        c = self.case
        return f"kind={c['kind']} n={c['n']} seed={c['seed']} scale={c['scale']} period={c['period']} source={c['source_type']}"

    def close(self, ind, aspect, got, want, atol, rtol=1e-9, need=None):
        """got must be finite and close wherever the reference is defined."""
        self.n_checks += 1
        got, want = np.asarray(got, dtype=float), np.asarray(want, dtype=float)
        if got.shape != want.shape:
            self.v(ind, aspect + ':shape', f'{got.shape} vs reference {want.shape}')
            return
        m = np.isfinite(want)
        if need is not None:
            m &= need
        if not m.any():
            return
        ok = np.isclose(got[m], want[m], rtol=rtol, atol=atol, equal_nan=False)
        if not ok.all():
            idx = np.flatnonzero(m)[np.argmin(ok)]
            self.v(ind, aspect, f'index {idx}: jesse {got[idx]!r} vs definition {want[idx]!r} ({int((~ok).sum())} of {int(m.sum())} defined positions differ)')

    def law(self, ind, aspect, cond, arr_desc):
        self.n_checks += 1
        cond = np.asarray(cond)
        if not cond.all():
            i = int(np.argmin(cond))
            self.v(ind, aspect, f'violated at index {i}: {arr_desc(i)}')

    # ------------------------------------------------------------------------------------
    def run(self):
        import jesse.indicators as ta
        from vf.ref import ta_ref as R
        c, p, st, S = self.c, self.p, self.st, self.scale
        x = R.source(c, st)
        xs = self.vscale if st == 'volume' else S
        a9 = 1e-9 * xs
        n = len(c)
        fin = np.isfinite
        # ---- window functions: exact -----------------------------------------------------
        self.close('sma', 'value', ta.sma(c, p, st, True), R.sma(x, p), a9)
        self.close('wma', 'value', ta.wma(c, p, st, True), R.wma(x, p), a9)
        self.close('trima', 'value', ta.trima(c, p, st, True), R.trima(x, p), a9)
        self.close('stddev', 'value', ta.stddev(c, p, 1, st, True), R.stddev(x, p), 1e-7 * xs)
        self.close('stddev', 'nbdev', ta.stddev(c, p, 2.5, st, True), 2.5 * R.stddev(x, p), 1e-7 * xs)
        self.close('var', 'value', ta.var(c, p, 1, st, True), R.var(x, p), 1e-9 * xs * xs + 1e-6 * xs)
        bb = ta.bollinger_bands(c, p, 2, 2, 0, 0, st, True)
        mid, sd = R.sma(x, p), R.stddev(x, p)
        self.close('bollinger_bands', 'middleband', bb.middleband, mid, a9)
        self.close('bollinger_bands', 'upperband', bb.upperband, mid + 2 * sd, 1e-6 * xs)
        self.close('bollinger_bands', 'lowerband', bb.lowerband, mid - 2 * sd, 1e-6 * xs)
        bb2 = ta.bollinger_bands(c, p, 1.5, 3, 0, 0, st, True)
        self.close('bollinger_bands', 'asymmetric-dev', bb2.upperband - bb2.lowerband, 4.5 * sd, 1e-6 * xs)
        dc = ta.donchian(c, p, True)
        hh, ll = R.rmax(c[:, 3], p), R.rmin(c[:, 4], p)
        self.close('donchian', 'upperband', dc.upperband, hh, 0)
        self.close('donchian', 'lowerband', dc.lowerband, ll, 0)
        self.close('donchian', 'middleband', dc.middleband, (hh + ll) / 2, 1e-9 * S)
        self.close('willr', 'value', ta.willr(c, p, True), R.willr(c, p), 1e-7)
        rk = R.raw_k(c, p)
        fd = min(5, max(2, p // 3))
        sf = ta.stochf(c, p, fd, 0, True)
        self.close('stochf', 'k', sf.k, rk, 1e-7)
        self.close('stochf', 'd', sf.d, R.sma(rk, fd), 1e-7)
        so = ta.stoch(c, p, 3, 0, fd, 0, True)
        sk = R.sma(rk, 3)
        self.close('stoch', 'k', so.k, sk, 1e-7)
        self.close('stoch', 'd', so.d, R.sma(sk, fd), 1e-7)
        self.close('cci', 'value', ta.cci(c, p, True), R.cci(c, p), 1e-6, rtol=1e-7)
        self.close('roc', 'value', ta.roc(c, p, st, True), R.roc(x, p), 1e-9, rtol=1e-9)
        self.close('mom', 'value', ta.mom(c, p, st, True), R.mom(x, p), a9)
        lag = np.full(n, np.nan)
        lag[p:] = x[:-p]
        with np.errstate(divide='ignore', invalid='ignore'):
            ratio = np.where(lag != 0, x / lag, np.nan)
        self.close('rocp', 'value', ta.rocp(c, p, st, True), ratio - 1, 1e-9, rtol=1e-9)
        self.close('rocr', 'value', ta.rocr(c, p, st, True), ratio, 1e-9, rtol=1e-9)
        self.close('rocr100', 'value', ta.rocr100(c, p, st, True), ratio * 100, 1e-9, rtol=1e-9)
        if self.vscale > 0:
            self.close('mfi', 'value', ta.mfi(c, p, True), R.mfi(c, p), 1e-7)
        self.close('obv', 'value', ta.obv(c, True), R.obv(c), 1e-9 * self.vscale * n)
        self.close('typprice', 'value', ta.typprice(c, True), (c[:, 3] + c[:, 4] + c[:, 2]) / 3, 1e-9 * S)
        self.close('medprice', 'value', ta.medprice(c, True), (c[:, 3] + c[:, 4]) / 2, 1e-9 * S)
        self.close('avgprice', 'value', ta.avgprice(c, True), (c[:, 1] + c[:, 3] + c[:, 4] + c[:, 2]) / 4, 1e-9 * S)
        self.close('wclprice', 'value', ta.wclprice(c, True), (c[:, 3] + c[:, 4] + 2 * c[:, 2]) / 4, 1e-9 * S)
        self.close('midpoint', 'value', ta.midpoint(c, p, st, True), (R.rmax(x, p) + R.rmin(x, p)) / 2, a9)
        self.close('midprice', 'value', ta.midprice(c, p, True), (hh + ll) / 2, 1e-9 * S)

        # ---- recursive smoothers: recurrence step ------------------------------------------
        alpha = 2 / (p + 1)
        e = np.asarray(ta.ema(c, p, st, True), dtype=float)
        step = np.full(n, np.nan)
        step[1:] = alpha * x[1:] + (1 - alpha) * e[:-1]
        self.close('ema', 'recurrence-step', e, step, a9)
        w = np.asarray(ta.wilders(c, p, st, True), dtype=float)
        step = np.full(n, np.nan)
        step[1:] = (w[:-1] * (p - 1) + x[1:]) / p
        self.close('wilders', 'recurrence-step', w, step, a9)
        tr = R.true_range(c)
        self.close('trange', 'value', ta.trange(c, True), tr, 1e-9 * S)
        at = np.asarray(ta.atr(c, p, True), dtype=float)
        if n > p:
            nat = np.asarray(ta.natr(c, p, True), dtype=float)
            with np.errstate(divide='ignore', invalid='ignore'):
                self.close('natr', 'value=atr/close*100', nat, at / c[:, 2] * 100, 1e-7, rtol=1e-8)
        step = np.full(n, np.nan)
        step[1:] = (at[:-1] * (p - 1) + tr[1:]) / p
        self.close('atr', 'recurrence-step', at, step, 1e-9 * S)
        dmv = ta.dm(c, p, True)
        up = np.zeros(n)
        dn = np.zeros(n)
        for i in range(1, n):
            a, b = c[i, 3] - c[i - 1, 3], c[i - 1, 4] - c[i, 4]
            up[i] = a if (a > b and a > 0) else 0.0
            dn[i] = b if (b > a and b > 0) else 0.0
        for fld, raw in (('plus', up), ('minus', dn)):
            g = np.asarray(getattr(dmv, fld), dtype=float)
            step = np.full(n, np.nan)
            step[1:] = g[:-1] - g[:-1] / p + raw[1:]
            self.close('dm', f'{fld}:recurrence-step', g, step, 1e-9 * S)
        fastp, slowp, sigp = max(2, p // 2), p + 1, max(2, p // 3)
        mc = ta.macd(c, fastp, slowp, sigp, st, True)
        self.close('macd', 'hist=macd-signal', mc.hist, np.asarray(mc.macd) - np.asarray(mc.signal), a9)
        asg = 2 / (sigp + 1)
        step = np.full(n, np.nan)
        step[1:] = asg * np.asarray(mc.macd)[1:] + (1 - asg) * np.asarray(mc.signal)[:-1]
        self.close('macd', 'signal:recurrence-step', mc.signal, step, a9)

        # ---- value once the seed has decayed ----------------------------------------------
        spread = float(np.nanmax(x) - np.nanmin(x)) + 1e-300
        tol = 1e-7 * xs

        def decayed(rate, start, poly=1):
            """indices i where poly-weighted rate^(i-start) * spread <= tol/10"""
            m = np.zeros(n, dtype=bool)
            for i in range(start, n):
                k = i - start
                if (k + 1) ** (poly - 1) * rate ** k * spread * 4 <= tol / 10:
                    m[i:] = True
                    break
            return m
        ref_e = R.ema_from(x, p, 0, x[0] + 0.37 * spread)
        self.close('ema', 'value-after-decay', e, ref_e, tol, need=decayed(1 - alpha, p))
        d1 = R.ema_from(x, p, 0, x[0] - 0.2 * spread)
        d2 = R.ema_from(d1, p, 0, d1[0] + 0.1 * spread)
        d3 = R.ema_from(d2, p, 0, d2[0])
        self.close('dema', 'value-after-decay', ta.dema(c, p, st, True), 2 * d1 - d2, tol * 4, need=decayed(1 - alpha, 0, 2))
        self.close('tema', 'value-after-decay', ta.tema(c, p, st, True), 3 * d1 - 3 * d2 + d3, tol * 8, need=decayed(1 - alpha, 0, 3))
        wr = 1 - 1 / p
        self.close('wilders', 'value-after-decay', w, R.wilder_from(x, p, 0, x[0] + 0.3 * spread), tol, need=decayed(wr, 0))
        self.close('smma', 'value-after-decay', ta.smma(c, p, st, True), R.wilder_from(x, p, 0, x[0] - 0.3 * spread), tol, need=decayed(wr, 0))
        self.close('atr', 'value-after-decay', at, R.wilder_from(tr, p, 0, tr[0] * 1.5), 1e-7 * S,
                   need=decayed(wr, p) & (np.arange(n) >= p))
        ef, es = R.ema_from(x, fastp, 0, x[0] + 0.1 * spread), R.ema_from(x, slowp, 0, x[0] - 0.1 * spread)
        self.close('macd', 'macd:value-after-decay', mc.macd, ef - es, tol * 2, need=decayed(1 - 2 / (slowp + 1), 0))
        if st != 'volume' and self.case['kind'] != 'constant':
            # RSI: averages of gains / losses smoothed by Wilder; started here from the first change only
            d = np.diff(x)
            ag, al = max(d[0], 0.0) + 1e-3 * spread, max(-d[0], 0.0) + 2e-3 * spread
            ref = np.full(n, np.nan)
            for i in range(1, n - 1):
                ag = (ag * (p - 1) + max(d[i], 0.0)) / p
                al = (al * (p - 1) + max(-d[i], 0.0)) / p
                ref[i + 1] = 100.0 if al == 0 else 100 - 100 / (1 + ag / al)
            floor_ = 1e-3 * spread / max(p, 1)
            m = decayed(wr, 1)
            # the bound is relative to the size of the averages: demand the (reference) averages to be well above the residue
            r = np.asarray(ta.rsi(c, p, st, True), dtype=float)
            mm = m & (np.arange(n) > 4 * p)
            self.close('rsi', 'value-after-decay', r, ref, 1e-4, rtol=1e-6, need=mm & self._avg_ok(d, p, spread))
        kc = ta.keltner(c, p, 2, 1, st, True)
        self.close('keltner', 'middleband=ema', kc.middleband, e, a9)
        self.close('keltner', 'upperband=middle+mult*atr', kc.upperband, e + 2 * at, 1e-9 * max(S, xs))
        self.close('keltner', 'lowerband=middle-mult*atr', kc.lowerband, e - 2 * at, 1e-9 * max(S, xs))
        self._adx(ta, R, up, dn, tr, decayed, wr)

        # ---- the selector --------------------------------------------------------------------
        for mt, name in MA_TABLE.items():
            if self.case.get('matypes') and mt not in self.case['matypes']:
                continue
            f = getattr(ta, name)
            try:
                if mt in NO_PERIOD:
                    want_seq, want_one = f(c, source_type=st, sequential=True), f(c, source_type=st, sequential=False)
                else:
                    want_seq, want_one = f(c, p, source_type=st, sequential=True), f(c, p, source_type=st, sequential=False)
            except Exception:  # noqa - the named average rejects these arguments: the selector is not constrained
                continue
            try:
                got_seq = ta.ma(c, p, matype=mt, source_type=st, sequential=True)
                got_one = ta.ma(c, p, matype=mt, source_type=st, sequential=False)
            except Exception as ex:  # noqa
                self.v('ma', f'matype={mt}:raised', f'ma(matype={mt}) raised {ex!r} but {name} accepts the arguments')
                continue
            self.n_checks += 1
            if not np.array_equal(np.asarray(got_seq, dtype=float), np.asarray(want_seq, dtype=float), equal_nan=True):
                self.v('ma', f'matype={mt}:sequential', f'ma(period={p}, matype={mt}) != {name}(period={p})')
            g1, w1 = float(got_one), float(want_one)
            if not (g1 == w1 or (g1 != g1 and w1 != w1)):
                self.v('ma', f'matype={mt}:single', f'ma(matype={mt}, sequential=False) = {g1!r}, {name} = {w1!r}')

        # ---- ranges, orderings, non-negativity, homogeneity ----------------------------------
        def rng(ind, arr, lo, hi, eps=1e-7):
            a = np.asarray(arr, dtype=float)
            m = fin(a)
            self.law(ind, f'range[{lo},{hi}]', (a[m] >= lo - eps) & (a[m] <= hi + eps), lambda i: f'value {a[m][i]!r}')
        r_ = ta.rsi(c, p, st, True)
        rng('rsi', r_, 0, 100)
        rng('mfi', ta.mfi(c, p, True), 0, 100)
        rng('stochf', sf.k, 0, 100); rng('stochf', sf.d, 0, 100); rng('stoch', so.k, 0, 100); rng('stoch', so.d, 0, 100)
        rng('willr', ta.willr(c, p, True), -100, 0)
        rng('adx', ta.adx(c, p, True), 0, 100)
        dv = ta.di(c, p, True)
        rng('di', dv.plus, 0, 100); rng('di', dv.minus, 0, 100)
        for ind, b, eps in (('bollinger_bands', bb, 1e-9 * xs), ('keltner', kc, 1e-9 * max(S, xs)), ('donchian', dc, 0)):
            u, m_, l_ = (np.asarray(z, dtype=float) for z in (b.upperband, b.middleband, b.lowerband))
            ok = fin(u) & fin(m_) & fin(l_)
            self.law(ind, 'upper>=middle>=lower', (u[ok] >= m_[ok] - eps) & (m_[ok] >= l_[ok] - eps), lambda i: f'{u[ok][i]!r} {m_[ok][i]!r} {l_[ok][i]!r}')
        u, l_ = np.asarray(dc.upperband, dtype=float), np.asarray(dc.lowerband, dtype=float)
        ok = fin(u)
        self.law('donchian', 'encloses-price', (u[ok] >= c[ok, 3]) & (l_[ok] <= c[ok, 4]), lambda i: 'band inside the candle range')
        for ind, arr, eps in (('atr', at, 0), ('stddev', ta.stddev(c, p, 1, st, True), 0), ('var', ta.var(c, p, 1, st, True), 1e-9 * xs * xs + 1e-6 * xs),
                              ('trange', ta.trange(c, True), 0)):
            a = np.asarray(arr, dtype=float)
            m = fin(a)
            self.law(ind, 'non-negative', a[m] >= -eps, lambda i: f'value {a[m][i]!r}')
        if st != 'volume':
            for lam in (0.001, 7.0, 1000.0):
                c2 = c.copy()
                c2[:, 1:5] *= lam
                for name in ('sma', 'ema', 'wma', 'dema', 'tema', 'trima', 'smma', 'wilders'):
                    f = getattr(ta, name)
                    a, b = np.asarray(f(c, p, st, True), dtype=float), np.asarray(f(c2, p, st, True), dtype=float)
                    self.close(name, f'homogeneity(x{lam})', b, lam * a, 1e-9 * lam * S)
            # the same relation when the caller rescales its candle buffer IN PLACE between the calls (same array object,
            # same length, same timestamps: what a feed does to a forming candle, or a caller that re-uses one buffer)
            buf = c.copy()
            for name in ('sma', 'ema', 'wma', 'trima'):
                f = getattr(ta, name)
                a = np.asarray(f(buf, p, st, True), dtype=float).copy()
                buf[:, 1:5] *= 7.0
                b = np.asarray(f(buf, p, st, True), dtype=float)
                self.close(name, 'homogeneity(x7.0,buffer-rescaled-in-place)', b, 7.0 * a, 1e-9 * 7.0 * S)
                buf[:, 1:5] = c[:, 1:5]
        return self.vios

    def _avg_ok(self, d, p, spread):
        # RSI is compared only where the smoothed loss average is not tiny (the ratio amplifies the seed residue otherwise)
        n = len(d) + 1
        al = np.zeros(n)
        acc = abs(d[0])
        for i in range(1, n - 1):
            acc = (acc * (p - 1) + max(-d[i], 0.0)) / p
            al[i + 1] = acc
        return al > 1e-3 * spread / p

    def _adx(self, ta, R, up, dn, tr, decayed, wr):
        c, p, n, S = self.c, self.p, len(self.c), self.scale
        if n < 3 * p + 5:
            return
        # Wilder: smoothed sums of +DM, -DM, TR (started from arbitrary seeds), DI = 100*DM/TR, DX, ADX = Wilder average of DX
        sp, sm, strr = up[1] + 0.3 * S, dn[1] + 0.2 * S, tr[1] * 2 + 0.1 * S
        dx = np.full(n, np.nan)
        pdi, mdi = np.full(n, np.nan), np.full(n, np.nan)
        for i in range(2, n):
            sp, sm, strr = sp - sp / p + up[i], sm - sm / p + dn[i], strr - strr / p + tr[i]
            if strr > 0:
                pdi[i], mdi[i] = 100 * sp / strr, 100 * sm / strr
                dx[i] = 100 * abs(pdi[i] - mdi[i]) / (pdi[i] + mdi[i]) if (pdi[i] + mdi[i]) > 0 else 0.0
        ref = np.full(n, np.nan)
        acc = 50.0
        for i in range(2, n):
            if dx[i] == dx[i]:
                acc = (acc * (p - 1) + dx[i]) / p
                ref[i] = acc
        a = np.asarray(ta.adx(c, p, True), dtype=float)
        # Error bound carried along the recursions instead of a fixed decay distance: two runs of the Wilder sums started from
        # different seeds differ by at most R0 * wr^(i-1); DI = 100 * DM / TR and DX = 100 |+DM - -DM| / (+DM + -DM) amplify that by
        # the inverse of their (possibly small) denominators, and ADX averages the DX errors. Wherever the textbook value is
        # undefined (TR sum ~ 0, +DM + -DM ~ 0) the bound restarts at 100.
        R0 = 1.5 * S + up[1] + dn[1] + 2 * tr[1]
        sp2, sm2, st2 = up[1], dn[1], tr[1]
        err_adx, err_di = np.full(n, 100.0), np.full(n, 100.0)
        e = 100.0
        for i in range(2, n):
            sp2, sm2, st2 = sp2 - sp2 / p + up[i], sm2 - sm2 / p + dn[i], st2 - st2 / p + tr[i]
            res = R0 * wr ** (i - 1)
            if st2 > 1e-6 * S * p and (sp2 + sm2) > 0:
                err_di[i] = min(100.0, 400.0 * res / st2)
                e_dx = min(100.0, 400.0 * res / (sp2 + sm2))
                e = min(100.0, wr * e + e_dx / p) if i > 2 * p + 2 else 100.0
            else:
                e = 100.0
            err_adx[i] = e
        self.close('adx', 'value-after-decay', a, ref, 1e-3, rtol=1e-6, need=err_adx <= 1e-4)
        dv = ta.di(c, p, True)
        self.close('di', 'plus:value-after-decay', dv.plus, pdi, 1e-3, rtol=1e-6, need=err_di <= 1e-4)
        self.close('di', 'minus:value-after-decay', dv.minus, mdi, 1e-3, rtol=1e-6, need=err_di <= 1e-4)


def check_case(case):
    ch = Checker(case)
    try:
        vios = ch.run()
    except Exception as e:  # noqa
        import traceback
        vios = ch.vios + [(f'C15:harness-or-indicator-raised:{type(e).__name__}', traceback.format_exc()[-700:])]
    return vios, ch.n_checks


def replay(case):
    return check_case(case)[0]


def run_shard(acc, shard, nshards, seed, tier):
    from hypothesis import strategies as st
    from vf import runner
    from vf.gen.indicators import SOURCE_TYPES
    known = runner.known_signatures('C15')
    kinds = ['walk', 'trend', 'downtrend', 'spikes', 'alternating', 'flatish', 'constant', 'monotone', 'walk', 'spikes', 'lattice', 'lattice', 'leading-zero-volume', 'gappy', 'gappy', 'flat-middle']
    # long inputs too: closed forms that scale by powers of the smoothing factor overflow only beyond a thousand candles
    lens = [130, 200, 300, 600, 130, 200, 300, 600, 1500, 4000] if tier == 'quick' else [130, 200, 300, 600, 1500, 1500, 4000, 9000]
    cases = st.fixed_dictionaries(dict(kind=st.sampled_from(kinds), n=st.sampled_from(lens), seed=st.integers(0, 2 ** 31),
                                       scale=st.sampled_from([100.0, 100.0, 1e-3, 25000.0, 1e-6, 1e6]),
                                       period=st.integers(2, 60), source_type=st.sampled_from(SOURCE_TYPES)))

    def chk(c):
        vios, n_checks = check_case(c)
        nt = c['kind'] != 'constant' and c['period'] < c['n'] / 2
        return dict(key=c, nontrivial=nt, classes=['kind:' + c['kind'], 'source:' + c['source_type'], f"period:{'2-5' if c['period'] <= 5 else '6-20' if c['period'] <= 20 else '21-60'}"],
                    sample=c, violations=vios, sub='cases')
    runner.hyp_search(acc, cases, chk, 20 if tier == 'quick' else 300, seed, tier, known=known, shrink_calls=25)
    if tier == 'thorough':
        # every period 2..60 x every source type on one series per shard
        for p in range(2, 61):
            if p % nshards != shard:
                continue
            for s_ in SOURCE_TYPES:
                c = dict(kind='walk', n=400, seed=seed % 100000 + p, scale=100.0, period=p, source_type=s_)
                vios, _ = check_case(c)
                acc.case(key=c, nontrivial=True, classes=['sweep'], sub='period-x-source-sweep')
                for sig, msg in vios:
                    acc.violation(sig, msg, c)
        acc.mark_exhaustive('period-x-source-sweep', 'all periods 2..60 x 8 source types on one series (per shard: periods = shard mod 16)')
