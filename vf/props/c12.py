"""C12 - fast mode reproduces the normal simulation when fills are unambiguous."""

RULE = ("Hypothesis-generated single-symbol sessions run twice, fast_mode=False and fast_mode=True (trading timeframe 1m..1h, "
        "optional larger data-route timeframe, spot and futures cross, 300..1500 minutes, session start on or off the timeframe grid: midnight + 0/3/7/30/570/1439 minutes). Eligibility is built in by "
        "construction: a per-minute extent bound M (gap + body + wicks, in ticks) is drawn first; candles are expanded from a "
        "drawn PRNG seed in trending / ranging segments under that bound; the program enters with a market order or ONE "
        "resting order and declares, in on_open_position, 1-2 stop-loss and 1-2 take-profit rows spaced at least "
        "D = M x timeframe-minutes + 2 ticks from the entry price and from each other, one position at a time. Eligibility is "
        "still checked on the normal trace (at most one resting fill per trading candle, no liquidation); ineligible pairs are "
        "counted and dropped. Oracle: the executed orders (side, type, qty, price, fill time) as sequences, the closed trades "
        "(type, qty, entry, exit, opened_at, closed_at) and the final balances / finishing_balance must be identical (floats "
        "exactly). distinct = digest of (candles, script, config); non-trivial = >= 2 closed trades and >= 1 resting fill.")
ASSUMPTIONS = [
    "the session length is arbitrary (not necessarily a multiple of the timeframe): the fast simulator's last chunk is shorter",
    "orders are identified by their position in the submission sequence, never by id",
]
TECHNIQUE = "differential testing of the two simulators over sessions constructed to be unambiguous (eligibility by construction, verified on the trace)"
MIN_NONTRIVIAL = {'quick': 50, 'thorough': 3000}
MIN = 60_000
TFM = {'1m': 1, '3m': 3, '5m': 5, '15m': 15, '30m': 30, '45m': 45, '1h': 60, '2h': 120, '4h': 240}


def make_rows(c):
    import numpy as np
    from vf.drive.bench import T0
    rng = np.random.Generator(np.random.PCG64(int(c['seed'])))
    n, b, w, g, gp = c['n'], c['b'], c['w'], c['g'], c['gap_p']
    rows, prev = [], c['start']
    seg_left, bias = 0, 0.0
    tick = c['tick']
    edge = TFM[c['tf']]
    for i in range(n):
        if seg_left == 0:
            seg_left = int(rng.integers(40, 260))
            bias = float(rng.choice([-0.75, -0.4, 0.0, 0.4, 0.75]))
        seg_left -= 1
        # gaps exactly on a trading-candle boundary (the fast simulator's chunk edge) get their own probability
        gp_i = c.get('edge_gap_p', gp) if i % edge == 0 else gp
        gap = int(rng.integers(-g, g + 1)) if (g and rng.random() < gp_i and i > 0) else 0
        body = int(rng.integers(0, b + 1)) * (1 if rng.random() < 0.5 + bias / 2 else -1)
        up, dn = int(rng.integers(0, w + 1)), int(rng.integers(0, w + 1))
        o = prev + gap
        cl = o + body
        if min(o, cl) - dn < 50:
            cl = o + abs(body)
            dn = 0
        h, l = max(o, cl) + up, min(o, cl) - dn
        rows.append([float(T0 + (c.get('start_off', 0) + i) * MIN), o * tick, cl * tick, h * tick, l * tick, float(rng.integers(1, 90))])
        prev = cl
    return rows


def build_spec(c, fast):
    M = c['g'] + c['b'] + 2 * c['w']
    D = M * TFM[c['tf']] + 2
    tick = c['tick']
    rows = []
    for r in c['rows']:
        rr = dict(act=r['act'], entry=[[1.0, r['entry_off']]], exits_at='open', cancel=True, shape='list', entry_ref=r.get('entry_ref'))
        rr['sl'] = [[f, D * (i + 1)] for i, f in enumerate(r['sl'])]
        rr['tp'] = [[f, D * (i + 1)] for i, f in enumerate(r['tp'])]
        rows.append(rr)
    candles = make_rows(c)
    p0 = candles[0][1]
    unit = round(c['balance'] * 0.2 / p0, 4)
    script = dict(rows=rows, tick=tick, unit=unit, cycle=True, data_tf=c.get('data_tf'))
    data = [dict(symbol='BTC-USDT', timeframe=c['data_tf'])] if c.get('data_tf') else []
    return dict(cfg=dict(type=c['type'], fee=c['fee'], balance=c['balance'], leverage=c['lev'], mode='cross', warm_up=0),
                routes=[dict(symbol='BTC-USDT', timeframe=c['tf'])], data=data, candles={'BTC-USDT': candles}, warmup=None,
                scripts={'BTC-USDT': script}, fast=fast, n=c['n'])


def view(r):
    from vf.drive.bench import T0
    orders = [(o['side'], o['type'], o['qty'], o['price'], o['reduce_only'], o['status'], o['executed_at']) for o in r['orders'] if o['status'] == 'EXECUTED']
    fin = r['final'] or {}
    trades = [(t['type'], t['qty'], t['entry_price'], t['exit_price'], t['opened_at'], t['closed_at']) for t in fin.get('trades', [])]
    bal = (fin.get('accounts') or {}).get('assets')
    m = (r['result'] or {}).get('metrics', {}) if r['result'] else {}
    return dict(orders=orders, trades=trades, balances=bal, finishing_balance=m.get('finishing_balance'), error=r['error'] and r['error']['type'])


def eligible(r, c):
    from vf.drive.bench import T0
    per = {}
    for o in r['orders']:
        if o['status'] == 'EXECUTED' and o['type'] != 'MARKET':
            k = int((o['executed_at'] - T0 - c.get('start_off', 0) * MIN - MIN) // (TFM[c['tf']] * MIN))  # trading candles are counted from the session's first minute
            per[k] = per.get(k, 0) + 1
    if any(v > 1 for v in per.values()):
        return False, 'two resting fills in one trading candle'
    if r['final'] and r['final']['total_liquidations']:
        return False, 'liquidation'
    return True, sum(per.values())


def run_pair(c):
    from vf.drive import session
    a = session.run(build_spec(c, False), obs='off')
    ok, info = eligible(a, c)
    if not ok:
        return [], dict(eligible=False, why=info)
    b = session.run(build_spec(c, True), obs='off')
    va, vb = view(a), view(b)
    vios = []
    if 'Watchdog' in (va['error'], vb['error']):
        return [], dict(eligible=False, why='stopped by the session watchdog')
    for key in ('error', 'orders', 'trades', 'balances', 'finishing_balance'):
        if va[key] != vb[key]:
            x, y = va[key], vb[key]
            detail = ''
            if isinstance(x, list) and isinstance(y, list):
                i = next((i for i, (p, q) in enumerate(zip(x, y)) if p != q), min(len(x), len(y)))
                detail = f'first difference at #{i}: normal {x[i] if i < len(x) else None} fast {y[i] if i < len(y) else None} (lengths {len(x)}/{len(y)})'
                field = ''
                if i < len(x) and i < len(y) and key == 'orders':
                    names = ['side', 'type', 'qty', 'price', 'reduce_only', 'status', 'fill-time']
                    field = ':' + next((n for n, p, q in zip(names, x[i], y[i]) if p != q), '?')
                sig = f'C12:{key}-differ{field}'
            else:
                detail = f'normal {x!r} fast {y!r}'
                sig = f'C12:{key}-differ'
            vios.append((sig + f":tf={c['tf']}", f"{detail} [tf={c['tf']} data_tf={c.get('data_tf')} type={c['type']} n={c['n']}]"))
            break
    return vios, dict(eligible=True, resting_fills=info, trades=len(va['trades']), error=va['error'])


def replay(case):
    return run_pair(case)[0]


def run_shard(acc, shard, nshards, seed, tier):
    from hypothesis import strategies as st
    from vf import runner
    known = runner.known_signatures('C12')

    @st.composite
    def cases(draw):
        tf = draw(st.sampled_from(['1m', '3m', '5m', '5m', '15m', '15m', '30m', '45m', '1h']))
        bigger = [t for t in ('15m', '30m', '1h', '2h', '4h') if TFM[t] > TFM[tf]]
        # also timeframes that do not nest with the trading timeframe (the chunk is then their gcd)
        odd = {'3m': ['5m'], '5m': ['3m'], '15m': ['45m'], '30m': ['45m'], '45m': ['1h', '30m'], '1h': ['45m']}.get(tf, [])
        data_tf = draw(st.sampled_from([None] + bigger[:2] + odd + odd))
        typ = draw(st.sampled_from(['futures', 'futures', 'spot']))
        n = draw(st.integers(300, 900 if tier == 'quick' else 1500))
        row = st.fixed_dictionaries(dict(act=st.sampled_from(['long', 'long', 'short', 'none'] if typ == 'futures' else ['long', 'long', 'none']),
                                         entry_off=st.sampled_from([0, 0, 1, 2, -1, -2, 3]),
                                         entry_ref=st.sampled_from([None, None, 'high', 'low', 'open', 'data_high', 'data_low', 'data_prev_close', 'data_open']),
                                         sl=st.sampled_from([[1.0], [0.5, 0.5], [1.0], [0.25, 0.75]]), tp=st.sampled_from([[1.0], [0.5, 0.5], [0.5, 0.25, 0.25][:2] + [0.25]][:3])))
        return dict(tf=tf, data_tf=data_tf, type=typ, n=n, seed=draw(st.integers(0, 2 ** 31)), b=draw(st.sampled_from([1, 1, 2, 3])), w=draw(st.sampled_from([0, 1])),
                    g=draw(st.sampled_from([0, 1, 2])), gap_p=draw(st.sampled_from([0.0, 0.05, 0.2])), start=draw(st.sampled_from([2000, 4000, 40000])),
                    tick=draw(st.sampled_from([0.5, 0.25, 0.01])), start_off=draw(st.sampled_from([0, 0, 0, 3, 7, 30, 570, 1439])), edge_gap_p=draw(st.sampled_from([0.0, 0.2, 0.6, 1.0])), fee=draw(st.sampled_from([0.0, 0.0004, 0.001])), balance=10_000.0,
                    lev=draw(st.sampled_from([1, 2, 5])) if typ == 'futures' else 1, rows=draw(st.lists(row, min_size=2, max_size=12)))

    def chk(c):
        vios, info = run_pair(c)
        if not info['eligible']:
            return dict(key=None, nontrivial=False, classes=['ineligible'], excluded=['ineligible: ' + info['why']], violations=[])
        nt = info['trades'] >= 2 and info['resting_fills'] >= 1
        cl = ['eligible', 'tf:' + c['tf'], 'type:' + c['type'], ('data-route:' + ('nesting' if (TFM[c['data_tf']] % TFM[c['tf']] == 0) else 'non-nesting')) if c['data_tf'] else 'no-data-route', 'odd-length' if c['n'] % TFM[c['tf']] else 'aligned-length', 'start-off-the-timeframe-grid' if c['start_off'] % TFM[c['tf']] else 'start-on-the-timeframe-grid']
        if info['error']:
            cl.append('aborted:' + info['error'])
        return dict(key=c, nontrivial=nt, classes=cl, violations=vios,
                    sample=dict({k: v for k, v in c.items() if k != 'rows'}, rows=c['rows'][:2], trades=info['trades'], resting_fills=info['resting_fills']) if nt else None)
    runner.hyp_search(acc, cases(), chk, 45 if tier == 'quick' else 1500, seed, tier, known=known, shrink_calls=20, max_shrink_sigs=1)
