"""Straightforward textbook implementations (loops over trailing windows), independent of jesse.

Every function returns an array of len(x) with NaN where the textbook value is undefined
(window incomplete, zero denominator)."""
import math

import numpy as np

NAN = float('nan')


def source(c, st):
    o, cl, h, l, v = c[:, 1], c[:, 2], c[:, 3], c[:, 4], c[:, 5]
    return {'close': cl, 'high': h, 'low': l, 'open': o, 'volume': v, 'hl2': (h + l) / 2, 'hlc3': (h + l + cl) / 3,
            'ohlc4': (o + h + l + cl) / 4}[st]


def _roll(x, p, fn):
    n = len(x)
    out = np.full(n, NAN)
    for i in range(p - 1, n):
        out[i] = fn(x[i - p + 1:i + 1])
    return out


def sma(x, p):
    return _roll(x, p, lambda w: math.fsum(w) / p)


def wma(x, p):
    den = p * (p + 1) / 2
    return _roll(x, p, lambda w: math.fsum((k + 1) * w[k] for k in range(p)) / den)


def trima(x, p):
    # triangular average = SMA of SMA
    if p % 2 == 1:
        n1 = n2 = (p + 1) // 2
    else:
        n1, n2 = p // 2, p // 2 + 1
    inner = sma(x, n1)
    out = np.full(len(x), NAN)
    for i in range(p - 1, len(x)):
        out[i] = math.fsum(inner[i - n2 + 1:i + 1]) / n2
    return out


def stddev(x, p):
    def f(w):
        m = math.fsum(w) / p
        return math.sqrt(math.fsum((a - m) ** 2 for a in w) / p)
    return _roll(x, p, f)


def var(x, p):
    def f(w):
        m = math.fsum(w) / p
        return math.fsum((a - m) ** 2 for a in w) / p
    return _roll(x, p, f)


def rmax(x, p):
    return _roll(x, p, max)


def rmin(x, p):
    return _roll(x, p, min)


def willr(c, p):
    hh, ll, cl = rmax(c[:, 3], p), rmin(c[:, 4], p), c[:, 2]
    out = np.full(len(cl), NAN)
    for i in range(len(cl)):
        if hh[i] == hh[i] and hh[i] != ll[i]:
            out[i] = -100 * (hh[i] - cl[i]) / (hh[i] - ll[i])
    return out


def raw_k(c, p):
    hh, ll, cl = rmax(c[:, 3], p), rmin(c[:, 4], p), c[:, 2]
    out = np.full(len(cl), NAN)
    for i in range(len(cl)):
        if hh[i] == hh[i] and hh[i] != ll[i]:
            out[i] = 100 * (cl[i] - ll[i]) / (hh[i] - ll[i])
    return out


def cci(c, p):
    tp = (c[:, 3] + c[:, 4] + c[:, 2]) / 3
    out = np.full(len(tp), NAN)
    for i in range(p - 1, len(tp)):
        w = tp[i - p + 1:i + 1]
        m = math.fsum(w) / p
        md = math.fsum(abs(a - m) for a in w) / p
        if md > 1e-9 * abs(m):  # a window of (numerically) identical prices: 0/0, and the sign of rounding noise otherwise
            out[i] = (tp[i] - m) / (0.015 * md)
    return out


def roc(x, p):
    out = np.full(len(x), NAN)
    for i in range(p, len(x)):
        if x[i - p] != 0:
            out[i] = (x[i] / x[i - p] - 1) * 100
    return out


def mom(x, p):
    out = np.full(len(x), NAN)
    for i in range(p, len(x)):
        out[i] = x[i] - x[i - p]
    return out


def mfi(c, p):
    tp = (c[:, 3] + c[:, 4] + c[:, 2]) / 3
    v = c[:, 5]
    out = np.full(len(tp), NAN)
    for i in range(p, len(tp)):
        pos = neg = 0.0
        for j in range(i - p + 1, i + 1):
            if tp[j] > tp[j - 1]:
                pos += tp[j] * v[j]
            elif tp[j] < tp[j - 1]:
                neg += tp[j] * v[j]
        if neg > 0:
            out[i] = 100 - 100 / (1 + pos / neg)
        elif pos > 0:
            out[i] = 100.0
    return out


def obv(c):
    cl, v = c[:, 2], c[:, 5]
    out = np.empty(len(cl))
    acc = v[0]
    out[0] = acc
    for i in range(1, len(cl)):
        if cl[i] > cl[i - 1]:
            acc += v[i]
        elif cl[i] < cl[i - 1]:
            acc -= v[i]
        out[i] = acc
    return out


def true_range(c):
    h, l, cl = c[:, 3], c[:, 4], c[:, 2]
    tr = np.empty(len(cl))
    tr[0] = h[0] - l[0]
    for i in range(1, len(cl)):
        tr[i] = max(h[i] - l[i], abs(h[i] - cl[i - 1]), abs(l[i] - cl[i - 1]))
    return tr


def ema_from(x, p, start, seed):
    """EMA recursion alpha=2/(p+1) started at index `start` with value `seed`."""
    a = 2 / (p + 1)
    out = np.full(len(x), NAN)
    out[start] = seed
    for i in range(start + 1, len(x)):
        out[i] = a * x[i] + (1 - a) * out[i - 1]
    return out


def wilder_from(x, p, start, seed):
    out = np.full(len(x), NAN)
    out[start] = seed
    for i in range(start + 1, len(x)):
        out[i] = (out[i - 1] * (p - 1) + x[i]) / p
    return out


def rsi_classic(x, p):
    """Wilder's RSI: first averages are simple means of the first p changes."""
    n = len(x)
    out = np.full(n, NAN)
    if n < p + 1:
        return out
    d = np.diff(x)
    ag = math.fsum(max(a, 0) for a in d[:p]) / p
    al = math.fsum(max(-a, 0) for a in d[:p]) / p
    out[p] = 100.0 if al == 0 else 100 - 100 / (1 + ag / al)
    for i in range(p, n - 1):
        ag = (ag * (p - 1) + max(d[i], 0)) / p
        al = (al * (p - 1) + max(-d[i], 0)) / p
        out[i + 1] = 100.0 if al == 0 else 100 - 100 / (1 + ag / al)
    return out
