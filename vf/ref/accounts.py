"""Reference account models written from the property text (no jesse imports).

Both are *fed the observed events*: submit / cancel / fill of orders (the attached strategy layer
legitimately cancels resting orders on its own when a position closes)."""
from decimal import Decimal
from fractions import Fraction as F


def fr(x):
    """Numbers are read as the decimal their shortest repr denotes (0.1 is one tenth), which is how the
    property states decimal-exact balances; arithmetic on them is exact."""
    if isinstance(x, F):
        return x
    if isinstance(x, int):
        return F(x)
    return F(Decimal(repr(float(x))))


def step(x):
    """One step of decimal bookkeeping: the exact decimal result converted to a double and read back as its shortest repr
    (what `float(Decimal(str(a)) + Decimal(str(b)))` leaves in the account)."""
    return fr(float(x))


class SpotAccount:
    """Cash account: quote and base balance; a buy reserves qty*price at submission."""

    def __init__(self, quote, fee):
        self.quote = fr(quote)
        self.base = {}
        self.fee = fr(fee)
        self.resting = {}  # ord -> (sym, side, type, qty, price)

    def base_of(self, sym):
        return self.base.get(sym, F(0))

    def resting_sells(self, sym, type_):
        return sum((o[3] for o in self.resting.values() if o[0] == sym and o[1] == 'sell' and o[2] == type_), F(0))

    def accepts(self, sym, side, type_, qty, price):
        """-> (lhs, rhs): the order is rejected exactly when lhs > rhs."""
        qty, price = abs(fr(qty)), fr(price)
        if side == 'buy':
            return qty * price, self.quote
        kind = 'LIMIT' if type_ == 'MARKET' else type_
        return qty + self.resting_sells(sym, kind), self.base_of(sym)

    def submit(self, ord_, sym, side, type_, qty, price):
        qty, price = abs(fr(qty)), fr(price)
        if side == 'buy':
            self.quote -= qty * price
        self.resting[ord_] = (sym, side, type_, qty, price)

    def cancel(self, ord_):
        sym, side, type_, qty, price = self.resting.pop(ord_)
        if side == 'buy':
            self.quote += qty * price

    def fill(self, ord_):
        sym, side, type_, qty, price = self.resting.pop(ord_)
        if side == 'buy':
            self.base[sym] = step(self.base_of(sym) + step(qty * (1 - self.fee)))
        else:
            q = min(qty, self.base_of(sym))
            self.base[sym] = step(self.base_of(sym) - q)
            self.quote += q * price * (1 - self.fee)


class FuturesAccount:
    """Average-cost margin account shared by several symbols."""

    def __init__(self, wallet, fee, leverage):
        self.wallet = fr(wallet)
        self.fee = fr(fee)
        self.lev = fr(leverage)
        self.qty = {}    # signed
        self.entry = {}
        self.price = {}  # current price per symbol
        self.resting = {}  # ord -> (sym, side, qty(signed), price, reduce_only)
        self.last_effect = None

    def q(self, sym):
        return self.qty.get(sym, F(0))

    def upnl(self, sym):
        q = self.q(sym)
        if q == 0 or sym not in self.price:
            return F(0)
        return q * (self.price[sym] - self.entry[sym])

    def available_margin(self):
        m = self.wallet
        syms = set(self.qty) | {o[0] for o in self.resting.values()}
        for s in syms:
            q = self.q(s)
            if q != 0:
                m -= abs(q) * self.entry[s] / self.lev
                m += self.upnl(s)
            buy = sum((abs(o[2]) * o[3] for o in self.resting.values() if o[0] == s and o[1] == 'buy' and not o[4]), F(0))
            sell = sum((abs(o[2]) * o[3] for o in self.resting.values() if o[0] == s and o[1] == 'sell' and not o[4]), F(0))
            m -= max(buy, sell) / self.lev
        return m

    def accepts(self, qty, price):
        return abs(fr(qty)) * fr(price) / self.lev, self.available_margin()

    def submit(self, ord_, sym, side, qty, price, reduce_only):
        q = abs(fr(qty))
        self.resting[ord_] = (sym, side, q if side == 'buy' else -q, fr(price), bool(reduce_only))

    def cancel(self, ord_):
        self.resting.pop(ord_)

    def fill(self, ord_):
        sym, side, q, price, ro = self.resting.pop(ord_)
        pos = self.q(sym)
        # fee on every fill, on the quantity actually traded (a reduce-only fill is clamped to the open size)
        eff = q
        if ro:
            if pos == 0 or (pos > 0) == (q > 0):
                eff = F(0)
            elif abs(q) > abs(pos):
                eff = -pos
        self.last_effect = None
        self.wallet -= abs(eff) * price * self.fee
        if eff == 0:
            self.last_effect = 'none'
            return
        if pos == 0:
            self.qty[sym], self.entry[sym] = eff, price
            self.last_effect = 'open'
        elif (pos > 0) == (eff > 0):
            self.entry[sym] = (abs(pos) * self.entry[sym] + abs(eff) * price) / (abs(pos) + abs(eff))
            self.qty[sym] = step(pos + eff)
            self.last_effect = 'increase'
        else:
            closed = min(abs(eff), abs(pos))
            self.wallet += closed * (price - self.entry[sym]) * (1 if pos > 0 else -1)
            rest = step(pos + eff)
            if rest == 0:
                self.qty[sym] = F(0)
                self.entry.pop(sym, None)
                self.last_effect = 'close'
            elif (rest > 0) == (pos > 0):
                self.qty[sym] = rest
                self.last_effect = 'reduce'
            else:
                self.qty[sym], self.entry[sym] = rest, price
                self.last_effect = 'flip'
