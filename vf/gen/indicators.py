"""Discovery of jesse.indicators and uniform calling / result normalisation."""
import inspect

import numpy as np

SOURCE_TYPES = ['close', 'high', 'low', 'open', 'volume', 'hl2', 'hlc3', 'ohlc4']
T0 = 1_600_000_000_000 - (1_600_000_000_000 % 86_400_000)
MATYPES = [0, 0, 1, 2, 3, 4, 5, 6, 9, 10, 12, 23, 25, 26]


def discover():
    """name -> (callable, signature) for every public callable of jesse.indicators with a `sequential` parameter."""
    import jesse.indicators as ta
    out = {}
    for n in sorted(dir(ta)):
        if n.startswith('_'):
            continue
        f = getattr(ta, n)
        if not callable(f) or inspect.isclass(f):
            continue
        try:
            sig = inspect.signature(f)
        except (TypeError, ValueError):
            continue
        if 'sequential' in sig.parameters and 'candles' in sig.parameters:
            out[n] = (f, sig)
    return out


def make_candles(kind, n, seed, scale=100.0, t0=T0):
    """Deterministic candle series (n,6) [ts, open, close, high, low, volume] from a drawn seed."""
    rng = np.random.Generator(np.random.PCG64(int(seed)))
    if kind == 'walk':
        steps = rng.normal(0, 0.01, n)
    elif kind == 'trend':
        steps = rng.normal(0.002, 0.006, n)
    elif kind == 'downtrend':
        steps = rng.normal(-0.002, 0.006, n)
    elif kind == 'spikes':
        steps = rng.normal(0, 0.004, n) + (rng.random(n) < 0.03) * rng.normal(0, 0.08, n)
    elif kind == 'alternating':
        steps = np.where(np.arange(n) % 2 == 0, 0.01, -0.01) + rng.normal(0, 0.0005, n)
    elif kind == 'flatish':
        steps = np.where(rng.random(n) < 0.7, 0.0, rng.normal(0, 0.003, n))
    elif kind == 'constant':
        steps = np.zeros(n)
    elif kind == 'monotone':
        steps = np.full(n, 0.003)
    elif kind in ('lattice', 'leading-zero-volume', 'gappy', 'flat-middle'):
        steps = rng.normal(0, 0.008, n)
    else:
        raise ValueError(kind)
    close = scale * np.exp(np.cumsum(steps))
    open_ = np.concatenate(([scale], close[:-1]))
    if kind == 'constant':
        high, low = close.copy(), close.copy()
    else:
        wig = np.abs(rng.normal(0, 0.003, (2, n))) * close
        high = np.maximum(open_, close) + wig[0]
        low = np.minimum(open_, close) - wig[1]
    vol = np.abs(rng.normal(1000, 300, n)) + 1
    if kind == 'flatish':
        vol = np.where(steps == 0, 0.0, vol)
    if kind == 'gappy':
        # opens away from the previous close (weekend / illiquid gaps): the previous close lies outside many candles' ranges
        gap = np.where(rng.random(n) < 0.3, rng.normal(0, 0.02, n), 0.0)
        gap[0] = 0.0
        level = np.cumprod(1 + gap)  # the whole candle (and everything after it) moves; the previous close stays where it was
        open_, close, high, low = open_ * level, close * level, high * level, low * level
    if kind == 'lattice':
        # prices on a coarse grid: ties between highs/lows, symmetric outside bars, equal extremes are frequent
        g = scale * 0.0025
        q = lambda a: np.round(a / g) * g
        open_, close = q(open_), q(close)
        high = np.maximum(q(high), np.maximum(open_, close))
        low = np.maximum(np.minimum(q(low), np.minimum(open_, close)), g)
        vol = np.round(vol / 100) * 100 + 100
    if kind == 'flat-middle':
        # a run of completely flat candles (O=H=L=C, no volume: gap-filled minutes) somewhere inside the series
        k = int(rng.integers(15, max(16, n // 4)))
        a = int(rng.integers(n // 4, max(n // 4 + 1, n - k - 10)))
        level = close[a - 1]
        shift = close[a + k - 1] - level
        open_[a:a + k] = close[a:a + k] = high[a:a + k] = low[a:a + k] = level
        vol[a:a + k] = 0.0
        # continue from the flat level afterwards
        open_[a + k:], close[a + k:], high[a + k:], low[a + k:] = open_[a + k:] - shift, close[a + k:] - shift, high[a + k:] - shift, low[a + k:] - shift
        open_[a + k] = level
        high[a + k], low[a + k] = max(high[a + k], level), min(low[a + k], level)
        low = np.maximum(low, scale * 1e-6)
    if kind == 'leading-zero-volume':
        # an imported series that starts with gap-filled (flat, zero-volume) candles
        k = int(rng.integers(5, max(6, n // 2)))
        open_[:k] = close[:k] = high[:k] = low[:k] = open_[0]
        open_[k] = open_[0]
        high[k], low[k] = max(high[k], open_[k]), min(low[k], open_[k])
        vol[:k] = 0.0
    ts = t0 + np.arange(n) * 60_000.0
    return np.column_stack([ts, open_, close, high, low, vol]).astype(float)


def default_kwargs(sig):
    return {k: v.default for k, v in sig.parameters.items() if v.default is not inspect._empty and k != 'sequential'}


def call(name, f, sig, candles, sequential, kwargs=None, candles2=None):
    kw = dict(kwargs or {})
    args = [candles]
    params = list(sig.parameters)
    if len(params) > 1 and sig.parameters[params[1]].default is inspect._empty and params[1] != 'sequential':
        args.append(candles2 if candles2 is not None else candles)
    return f(*args, sequential=sequential, **kw)


def fields(res):
    """Normalise an indicator result to an ordered dict field -> value (ndarray or scalar)."""
    if hasattr(res, '_fields'):
        return {k: getattr(res, k) for k in res._fields}
    if isinstance(res, tuple):
        return {f'f{i}': v for i, v in enumerate(res)}
    if isinstance(res, dict):
        return dict(res)
    return {'value': res}


def perturb_kwargs(sig, draw_int, draw_choice):
    """Non-default parameters: integer period-like parameters get a drawn value, source_type a drawn type."""
    kw = {}
    for k, v in sig.parameters.items():
        if k in ('candles', 'sequential') or v.default is inspect._empty:
            continue
        d = v.default
        if k == 'source_type':
            kw[k] = draw_choice(SOURCE_TYPES)
        elif isinstance(d, bool):
            continue
        elif k.endswith('matype') and isinstance(d, int):
            kw[k] = draw_choice(MATYPES)
        elif isinstance(d, int) and ('period' in k or 'length' in k or k in ('k', 'd', 'lookback', 'order', 'window')) and d >= 2:
            kw[k] = draw_int(2, 60)
    return kw
