"""Generator of complete session specs for vf.drive.session.run."""
from hypothesis import strategies as st

from vf.gen import candles as gc
from vf.gen import programs as gp

TF_MIN = {'1m': 1, '3m': 3, '5m': 5, '15m': 15, '30m': 30, '45m': 45, '1h': 60, '2h': 120, '3h': 180, '4h': 240}
SYMS = ['BTC-USDT', 'ETH-USDT']


@st.composite
def session(draw, minutes=(60, 200), kinds=('futures', 'spot'), tfs=('1m', '3m', '5m', '15m'), data_tfs=('3m', '5m', '15m', '30m', '1h'),
            max_symbols=2, max_data=2, warmup=(False, True), fast=(False, True), modes=('cross',), leverages=(1, 2, 5, 10, 25),
            fees=(0.0, 0.0004, 0.001, 0.0075), structural=True, program=None, same_tf=False, align_len=False, min_steps=8, min_symbols=1,
            data_only_symbol=False, candle_opts=None, logs=(False,), unaligned_warmup=False):
    kind = draw(st.sampled_from(kinds))
    futures = kind == 'futures'
    nsym = draw(st.integers(min_symbols, max_symbols))
    syms = SYMS[:nsym]
    tf0 = draw(st.sampled_from(tfs))
    routes = [dict(symbol=s, timeframe=tf0 if (same_tf or i == 0) else draw(st.sampled_from(tfs))) for i, s in enumerate(syms)]
    ndata = draw(st.integers(0, max_data))
    data = []
    for _ in range(ndata):
        d = dict(symbol=draw(st.sampled_from(syms)), timeframe=draw(st.sampled_from(data_tfs)))
        if d not in data and not any(r['symbol'] == d['symbol'] and r['timeframe'] == d['timeframe'] for r in routes):
            data.append(d)
    extra_sym = None
    if data_only_symbol and draw(st.booleans()):
        # a symbol that is only observed (data route), never traded
        extra_sym = 'LTC-USDT'
        data.append(dict(symbol=extra_sym, timeframe=draw(st.sampled_from(data_tfs))))
    all_tf = [r['timeframe'] for r in routes] + [d['timeframe'] for d in data]
    max_tf = max(TF_MIN[t] for t in all_tf)
    lo = max(minutes[0], min_steps * max(TF_MIN[r['timeframe']] for r in routes))
    n = draw(st.integers(lo, max(lo, minutes[1])))
    if align_len:
        n = max(max_tf, n - n % max_tf)
    balance = draw(st.sampled_from([10_000.0, 1_000.0, 50_000.0]))
    lev = draw(st.sampled_from(leverages)) if futures else 1
    cfg = dict(type=kind, fee=draw(st.sampled_from(fees)), balance=balance, leverage=lev,
               mode=draw(st.sampled_from(modes)) if futures else 'cross', warm_up=0)
    cands, scripts, ticks = {}, {}, {}
    for s in syms:
        c = draw(gc.structural(n, **(candle_opts or {})) if structural else gc.prng(n))
        rows = gc.expand(c)
        cands[s] = rows
        ticks[s] = c['tick']
        p0 = rows[0][1]
        unit_notional = balance * (min(lev, 5) if futures else 1) * 0.12 / nsym
        unit = round(unit_notional / p0, 4) or 0.0001
        steps = n // TF_MIN[[r for r in routes if r['symbol'] == s][0]['timeframe']] + 1
        prog = program or {}
        scripts[s] = draw(gp.script(min(steps, 60), futures, c['tick'], unit, **prog))
    if extra_sym:
        c = draw(gc.structural(n, **(candle_opts or {})) if structural else gc.prng(n))
        cands[extra_sym] = gc.expand(c)
        ticks[extra_sym] = c['tick']
        syms = syms + [extra_sym]
    warm = None
    if draw(st.sampled_from(warmup)):
        k = draw(st.integers(1, 3))
        wn = max_tf * k
        # warm-up length must be a multiple of every route timeframe
        import math
        l = 1
        for t in all_tf:
            l = l * TF_MIN[t] // math.gcd(l, TF_MIN[t])
        wn = l * k
        if unaligned_warmup and l > 1 and draw(st.sampled_from([False, False, True])):
            # a caller of research.backtest may pass a warm-up of any length (jesse's own loader passes whole windows)
            wn += draw(st.integers(1, l - 1))
        if wn <= 720:
            cfg['warm_up'] = wn
            warm = {}
            for s in syms:
                start_ticks = round(cands[s][0][1] / ticks[s])
                warm[s] = gc.warmup_rows(draw(st.integers(0, 2 ** 16)), wn, ticks[s], start_ticks)
    return dict(cfg=cfg, routes=routes, data=data, candles=cands, warmup=warm, scripts=scripts,
                fast=draw(st.sampled_from(fast)), n=n, ticks=ticks, logs=draw(st.sampled_from(logs)))

