"""Generators of ScriptedStrategy programs (see vf/drive/session.py:make_strategy for the semantics)."""
from hypothesis import strategies as st

FRACS_EXACT = [1.0, 0.5, 0.25, 0.75, 0.1, 0.2]
THIRD = 1 / 3


def ladder(max_rows=3, min_off=1, max_off=8, thirds=True, oversize=False, spaced=1):
    """A 1..max_rows exit ladder: fractions of the position that sum to exactly the position
    (or, with oversize=True, possibly the full size on every row), offsets in ticks strictly increasing."""
    @st.composite
    def _l(draw):
        n = draw(st.integers(1, max_rows))
        offs = sorted(set(draw(st.lists(st.integers(min_off, max_off), min_size=n, max_size=n))))
        offs = [o * spaced for o in offs]
        n = len(offs)
        style = draw(st.sampled_from(['split', 'split', 'split', 'partial'] + (['thirds'] if thirds else []) + (['full-each'] * 2 if oversize else [])))
        if style == 'full-each':
            fr = [1.0] * n
        elif style == 'thirds' and n == 3:
            fr = [THIRD, THIRD, THIRD]
        elif style == 'partial':
            fr = [[0.5], [0.25, 0.25], [0.25, 0.25, 0.25]][n - 1]
        else:
            fr = [[1.0], [0.5, 0.5], [0.5, 0.25, 0.25]][n - 1]
        return [[f, o] for f, o in zip(fr, offs)]
    return _l()


def entry_points(max_points=3, offs=(-6, 6), boundary=False):
    offv = st.integers(offs[0], offs[1])
    if boundary:
        offv = st.one_of(offv, st.sampled_from([{'rel': 0.00015}, {'rel': -0.00015}, {'rel': 0.000149}, {'rel': -0.000149},
                                                  {'rel': 0.000151}, {'rel': -0.000151}, {'rel': 0.0001}, {'rel': 0.0}]))
    pt = st.tuples(st.sampled_from([1.0, 1.0, 0.5, 0.25]), offv).map(list)
    return st.lists(pt, min_size=1, max_size=max_points)


def fixed_level(kmin=15, kmax=60):
    return st.integers(kmin, kmax).map(lambda k: [[1.0, {'from_first_open': k}]])


def action(futures, flips=False, oversize=False, spaced=1, adds=True, clears=False):
    lad = ladder(oversize=oversize, spaced=spaced)
    kinds = [st.fixed_dictionaries(dict(kind=st.just('sl'), sl=lad, shape=st.sampled_from(['list', 'tuple', 'ndarray']), read_avg=st.booleans())),
             st.fixed_dictionaries(dict(kind=st.just('tp'), tp=lad, shape=st.sampled_from(['list', 'tuple', 'ndarray']), read_avg=st.booleans())),
             st.fixed_dictionaries(dict(kind=st.just('both'), sl=lad, tp=lad)),
             st.fixed_dictionaries(dict(kind=st.just('sl'), sl=ladder(1, 1, 4, spaced=spaced), ref=st.just('entry'))),
             st.just(dict(kind='liq')),
             st.fixed_dictionaries(dict(kind=st.sampled_from(['nudge_sl', 'nudge_tp']), off=st.integers(1, 4)))]
    if adds:
        kinds.append(st.fixed_dictionaries(dict(kind=st.just('add'), frac=st.sampled_from([1.0, 0.5]), off=st.integers(-4, 4))))
    if flips and futures:
        kinds.append(st.fixed_dictionaries(dict(kind=st.just('flip'), k=st.sampled_from([2, 1.5, 3]))))
    if clears:
        # withdraw a declaration: `self.take_profit = []` (a declaration without rows)
        kinds.append(st.fixed_dictionaries(dict(kind=st.just('clear'), which=st.sampled_from(['sl', 'tp']))))
    return st.one_of(*kinds)


def row(futures, flips=False, oversize=False, boundary=False, spaced=1, adds=True, max_points=3, busy=False, resting=False, hold=False, fixed=False, clears=False):
    act = st.sampled_from((['none'] * (2 if busy else 5)) + ['long'] * 3 + (['short'] * 3 if futures else []))
    lad = ladder(oversize=oversize, spaced=spaced)
    a = action(futures, flips, oversize, spaced, adds, clears)
    maybe = lambda s, p=3: st.one_of(*([st.none()] * p + [s]))
    return st.fixed_dictionaries(dict(
        act=act, entry=(st.one_of(entry_points(max_points, boundary=boundary), entry_points(2, offs=(25, 90))) if resting
                        else entry_points(max_points, boundary=boundary)),
        shape=st.sampled_from(['list', 'list', 'tuple', 'lists']),
        exits_at=st.sampled_from(['none', 'none', 'none', 'open'] if hold else (['go', 'open', 'open', 'none'] if futures else ['open', 'open', 'none'])),
        sl=st.one_of(st.none(), lad, fixed_level()) if fixed else st.one_of(st.none(), lad),
        tp=st.one_of(st.none(), lad, fixed_level()) if fixed else st.one_of(st.none(), lad),
        upd=maybe(a, 30 if hold else 4), on_red=maybe(a, 4), on_inc=maybe(a, 4),
        cancel=st.sampled_from([True, False, False, False] if resting else [True, True, True, False]),
    ))


def script(n_steps, futures, tick, unit, cycle=False, no_update=False, **kw):
    d = dict(rows=st.lists(row(futures, **kw), min_size=1, max_size=n_steps),
             tick=st.just(tick), unit=st.just(unit), cycle=st.just(bool(cycle)))
    if no_update:
        # one strategy in four has no update_position() of its own and applies its per-step actions in before()
        d['no_update'] = st.sampled_from([False, False, False, True])
    return st.fixed_dictionaries(d)
