"""Candle generators (Hypothesis strategies producing plain lists of [ts,o,c,h,l,v] rows).

Two families:
 * structural: every minute is drawn from Hypothesis on an integer tick lattice, so ties with
   O/H/L/C and the previous close are frequent and failures shrink minute by minute;
 * prng: a drawn integer expanded through numpy PCG64 (a pure function of the drawn value) for long
   sessions; replay files carry the materialised candles.
"""
import numpy as np
from hypothesis import strategies as st

T0 = 1_600_000_000_000 - (1_600_000_000_000 % 86_400_000)
MIN = 60_000

TICKS = [0.5, 0.01, 1.0, 0.25]
REAL_TICKS = [0.0137, 3.3331, 0.7919]


VUNITS = [1.0, 0.3713, 1.0, 0.012345]  # volume per generated unit: traded volumes are fractional numbers with many decimals


def rows_from_ticks(moves, start, tick, t0=T0, vunit=1.0):
    """moves: list of (gap, body, up, down, vol) integer tuples -> candle rows on the lattice start*tick."""
    rows = []
    prev_close = start
    for i, (gap, body, up, down, vol) in enumerate(moves):
        o = prev_close + (gap if i > 0 else 0)
        if o < 20:
            o = prev_close
        c = o + body
        if c < 20:
            c = o + abs(body)
        h = max(o, c) + up
        lo = max(min(o, c) - down, 1)
        rows.append([float(t0 + i * MIN), o * tick, c * tick, h * tick, lo * tick, float(vol) * vunit])
        prev_close = c
    return rows


@st.composite
def structural(draw, n, tick=None, max_body=4, max_wick=4, gap_sizes=(1, 2, 3, 6), start=None, t0=T0, gap_ps=(0, 0, 1, 2, 5), spin_ps=(0,)):
    tick = tick if tick is not None else draw(st.sampled_from(TICKS + REAL_TICKS[:1]))
    start = start if start is not None else draw(st.sampled_from([200, 200, 400, 1000, 20000]))
    gap_p = draw(st.sampled_from(list(gap_ps)))  # out of 10
    flat_p = draw(st.sampled_from([0, 0, 1, 3]))
    signed = [g * s for g in gap_sizes for s in (1, -1)]
    gap_choices = [0] * (10 - gap_p) + [signed[i % len(signed)] for i in range(gap_p)]
    gaps = st.sampled_from(gap_choices)
    body = st.integers(-max_body, max_body)
    wick = st.integers(0, max_wick)
    spin_p = draw(st.sampled_from(list(spin_ps))) if len(spin_ps) > 1 else spin_ps[0]  # out of 10: spinning tops (close == open, both wicks)
    kind = st.sampled_from(['n'] * max(1, 10 - flat_p - spin_p) + ['f'] * flat_p + ['s'] * spin_p)
    minute = st.tuples(gaps, body, wick, wick, st.integers(0, 50), kind)
    raw = draw(st.lists(minute, min_size=n, max_size=n))
    moves = [(g, 0, 0, 0, v if v % 3 else 0) if k == 'f' else ((g, 0, u + 1, d + 1, v + 1) if k == 's' else (g, b, u, d, v + 1)) for g, b, u, d, v, k in raw]
    return dict(tick=tick, start=start, rows=rows_from_ticks(moves, start, tick, t0, vunit=draw(st.sampled_from(VUNITS))))


def prng_rows(seed, n, tick=0.5, start=400, vol=3, gap_p=0.05, flat_p=0.05, trend=0.0, t0=T0):
    """Deterministic expansion of a drawn integer into n lattice candles."""
    rng = np.random.Generator(np.random.PCG64(int(seed)))
    body = np.rint(rng.normal(trend, vol, n)).astype(int)
    up = rng.integers(0, vol + 2, n)
    down = rng.integers(0, vol + 2, n)
    gap = np.where(rng.random(n) < gap_p, rng.integers(-2 * vol - 1, 2 * vol + 2, n), 0)
    flat = rng.random(n) < flat_p
    v = rng.integers(1, 100, n)
    moves = []
    for i in range(n):
        if flat[i]:
            moves.append((int(gap[i]), 0, 0, 0, 0 if i % 2 else int(v[i])))
        else:
            moves.append((int(gap[i]), int(body[i]), int(up[i]), int(down[i]), int(v[i])))
    return rows_from_ticks(moves, start, tick, t0, vunit=VUNITS[int(seed) % len(VUNITS)])


@st.composite
def prng(draw, n, tick=None, t0=T0):
    tick = tick if tick is not None else draw(st.sampled_from(TICKS + REAL_TICKS))
    return dict(tick=tick, start=draw(st.sampled_from([400, 1000, 20000])),
                seed=draw(st.integers(0, 2 ** 32 - 1)), vol=draw(st.integers(1, 6)),
                gap_p=draw(st.sampled_from([0.0, 0.02, 0.1, 0.4])), flat_p=draw(st.sampled_from([0.0, 0.05, 0.3])),
                trend=draw(st.sampled_from([0.0, 0.0, 0.15, -0.15])), n=n)


def expand(c, t0=T0):
    """dict produced by prng() -> rows; structural dicts already carry rows."""
    if 'rows' in c:
        return c['rows']
    return prng_rows(c['seed'], c['n'], c['tick'], c['start'], c['vol'], c['gap_p'], c['flat_p'], c['trend'], t0)


def warmup_rows(seed, n, tick, start, t0=T0):
    """n one-minute candles ending right before t0 whose last close is `start` ticks."""
    rows = prng_rows(seed, n, tick, start, vol=2, gap_p=0.0, flat_p=0.0, t0=t0 - n * MIN)
    # shift so that the last close equals the session's first open
    last_close = rows[-1][2]
    d = start * tick - last_close
    for r in rows:
        for k in (1, 2, 3, 4):
            r[k] = max(r[k] + d, tick)
    return rows
