"""Shared runner: shards a property's generated search over a process pool, collects
violations bucketed by root-cause signature, applies known_findings, writes replay files
and the evidence file.  No jesse import happens in the parent process."""
import collections
import fnmatch
import hashlib
import importlib
import json
import multiprocessing as mp
import os
import shutil
import sys
import tempfile
import time
import traceback

HOME = os.environ.get('VERIF_HOME') or os.path.dirname(os.path.dirname(os.path.abspath(__file__)))
REPO = os.environ.get('VERIF_REPO', '/repo')
NSHARDS = 16
MAX_SAMPLES = 4


# ----------------------------------------------------------------------------- utilities
def jsonable(o):
    import numpy as np
    if isinstance(o, dict):
        return {str(k): jsonable(v) for k, v in o.items()}
    if isinstance(o, (list, tuple)):
        return [jsonable(v) for v in o]
    if isinstance(o, np.ndarray):
        return jsonable(o.tolist())
    if isinstance(o, (np.integer,)):
        return int(o)
    if isinstance(o, (np.floating,)):
        return jsonable(float(o))
    if isinstance(o, (np.bool_,)):
        return bool(o)
    if isinstance(o, float):
        if o != o:
            return 'NaN'
        if o in (float('inf'), float('-inf')):
            return 'Infinity' if o > 0 else '-Infinity'
        return o
    if isinstance(o, (str, int, bool)) or o is None:
        return o
    return repr(o)


def unjson_float(x):
    if x == 'NaN':
        return float('nan')
    if x == 'Infinity':
        return float('inf')
    if x == '-Infinity':
        return float('-inf')
    return x


def digest(o):
    return hashlib.sha1(json.dumps(jsonable(o), sort_keys=True).encode()).hexdigest()[:16]


def derive_seed(seed, prop, shard, salt=''):
    h = hashlib.sha256(f'{seed}|{prop}|{shard}|{salt}'.encode()).digest()
    return int.from_bytes(h[:6], 'big')


class Acc:
    """Per-shard accumulator of what was explored and what was found."""

    def __init__(self, prop, shard):
        self.prop = prop
        self.shard = shard
        self.evaluations = 0
        self.nontrivial = set()
        self.classes = collections.Counter()
        self.excluded = collections.Counter()
        self.samples = []
        self.violations = []  # dict(signature, message, case)
        self.sub = collections.OrderedDict()  # sub-check name -> dict(evaluations, exhaustive)
        self.error = None
        self._seen_sig = collections.Counter()

    def case(self, key=None, nontrivial=False, classes=(), sample=None, n=1, sub=None):
        self.evaluations += n
        if nontrivial and key is not None:
            self.nontrivial.add(key if isinstance(key, str) else digest(key))
        for c in classes:
            self.classes[c] += 1
        if sub:
            d = self.sub.setdefault(sub, {'evaluations': 0})
            d['evaluations'] += n
        if sample is not None and len(self.samples) < MAX_SAMPLES and (nontrivial or not self.samples):
            self.samples.append(jsonable(sample))

    def exclude(self, why, n=1):
        self.excluded[why] += n

    def mark_exhaustive(self, sub, space):
        d = self.sub.setdefault(sub, {'evaluations': 0})
        d['exhaustive'] = True
        d['space'] = space

    def violation(self, signature, message, case, size=None):
        """Keep, per signature, the smallest case seen (size = any comparable)."""
        self._seen_sig[signature] += 1
        case = jsonable(case)
        if size is None:
            size = len(json.dumps(case))
        for v in self.violations:
            if v['signature'] == signature:
                v['count'] += 1
                if size < v['size']:
                    v.update(message=message, case=case, size=size)
                return
        self.violations.append(dict(signature=signature, message=str(message)[:2000], case=case, size=size, count=1))

    def to_dict(self):
        return dict(prop=self.prop, shard=self.shard, evaluations=self.evaluations,
                    nontrivial=sorted(self.nontrivial), classes=dict(self.classes),
                    excluded=dict(self.excluded), samples=self.samples, violations=self.violations,
                    sub=self.sub, error=self.error)


# ----------------------------------------------------------------------------- known findings
def load_known():
    known, fixed = [], []
    p = os.path.join(HOME, 'KNOWN_FINDINGS.txt')
    if not os.path.exists(p):
        return known, fixed
    for line in open(p):
        line = line.strip()
        if not line or line.startswith('#'):
            continue
        if line.startswith('known:'):
            body = line[len('known:'):].strip()
            head, _, what = body.partition(' :: ')
            f = dict(tok.split('=', 1) for tok in head.split() if '=' in tok)
            known.append(dict(property=f.get('property'), signature=f.get('signature'), what=what.strip()))
        elif line.startswith('fixed:'):
            fixed.append(line)
    return known, fixed


def known_match(prop, signature, known):
    for k in known:
        if k['property'] == prop and (k['signature'] == signature or fnmatch.fnmatchcase(signature, k['signature'])):
            return k
    return None


def known_signatures(prop):
    return [k['signature'] for k in load_known()[0] if k['property'] == prop]


# ----------------------------------------------------------------------------- worker side
def setup_env(repo):
    """Private scratch cwd (jesse writes storage/ relative to cwd at import), repo first on sys.path."""
    base = '/dev/shm' if os.path.isdir('/dev/shm') and os.access('/dev/shm', os.W_OK) else None
    scratch = tempfile.mkdtemp(prefix='vf-', dir=base)
    os.chdir(scratch)
    os.environ.pop('PYTEST_CURRENT_TEST', None)
    os.environ.setdefault('NUMBA_DISABLE_PERFORMANCE_WARNINGS', '1')
    if repo in sys.path:
        sys.path.remove(repo)
    sys.path.insert(0, repo)
    if HOME not in sys.path:
        sys.path.insert(1, HOME)
    import warnings
    warnings.filterwarnings('ignore')
    return scratch


def _worker(args):
    kind, prop, shard, nshards, seed, tier, repo, payload = args
    scratch = setup_env(repo)
    acc = Acc(prop, shard)
    t0 = time.time()
    sys.stdout = open(os.devnull, 'w')  # jesse prints from some indicators / loggers; only the parent reports
    try:
        mod = importlib.import_module('vf.props.' + prop.lower())
        if kind == 'replay':
            for sig, msg in mod.replay(payload['case']):
                acc.violation(sig, msg, payload['case'])
            acc.case(key='replay:' + payload['name'], nontrivial=False, classes=['regression-replay'], sub='regression-replay')
        else:
            mod.run_shard(acc, shard=shard, nshards=nshards, seed=derive_seed(seed, prop, shard), tier=tier)
    except BaseException:
        acc.error = traceback.format_exc()
    finally:
        try:
            os.chdir('/')
            shutil.rmtree(scratch, ignore_errors=True)
        except Exception:
            pass
    d = acc.to_dict()
    d['wall_s'] = time.time() - t0
    return d


# ----------------------------------------------------------------------------- parent side
def _child(args, conn):
    try:
        conn.send(_worker(args))
    except BaseException:
        try:
            conn.send(dict(prop=args[1], shard=args[2], evaluations=0, nontrivial=[], classes={}, excluded={}, samples=[],
                           violations=[], sub={}, error=traceback.format_exc(), wall_s=0))
        except Exception:
            pass
    finally:
        conn.close()


def _run_tasks(tasks, procs, timeout):
    """One fresh (spawned) process per task, at most `procs` at a time. A worker that dies or exceeds the time
    budget yields a harness error for its shard (exit 2, never a violation) instead of hanging the run."""
    ctx = mp.get_context('spawn')
    pending = list(enumerate(tasks))
    running, results = {}, {}
    found_at = None  # when the first shard reported a violation: the others get a grace period, then are stopped
    grace = float(os.environ.get('VERIF_GRACE', '90'))
    while pending or running:
        if found_at is not None and time.time() - found_at > grace:
            pending = []
        while pending and len(running) < procs:
            i, t = pending.pop(0)
            parent, child = ctx.Pipe(duplex=False)
            p = ctx.Process(target=_child, args=(t, child), daemon=True)
            p.start()
            child.close()
            running[i] = (p, parent, time.time(), t)
        done = []
        for i, (p, conn, started, t) in running.items():
            got = None
            try:
                if conn.poll(0.02):
                    got = conn.recv()
            except (EOFError, OSError):
                got = dict(error=f'worker for shard {t[2]} died without a result (exit code {p.exitcode})')
            if got is None and not p.is_alive():
                try:
                    if conn.poll(0.2):
                        got = conn.recv()
                except (EOFError, OSError):
                    pass
                if got is None:
                    got = dict(error=f'worker for shard {t[2]} died without a result (exit code {p.exitcode})')
            if got is None and time.time() - started > timeout:
                p.kill()
                got = dict(error=f'worker for shard {t[2]} exceeded the time budget of {timeout:.0f}s (inconclusive, not a violation)')
            if got is None and found_at is not None and time.time() - found_at > grace:
                p.kill()
                got = dict(error=None, stopped_early=True)
            if got is not None and got.get('violations') and found_at is None:
                found_at = time.time()
            if got is not None:
                base = dict(prop=t[1], shard=t[2], evaluations=0, nontrivial=[], classes={}, excluded={}, samples=[], violations=[],
                            sub={}, error=None, wall_s=time.time() - started)
                base.update(got)
                results[i] = base
                done.append(i)
        for i in done:
            p, conn, _, _ = running.pop(i)
            try:
                conn.close()
            except Exception:
                pass
            p.join(timeout=5)
            if p.is_alive():
                p.kill()
        if not done:
            time.sleep(0.05)
    return [results[i] for i in sorted(results)]


def _meta(prop):
    """Static metadata of a property module, read without importing jesse (modules import jesse lazily)."""
    sys.path.insert(0, HOME)
    mod = importlib.import_module('vf.props.' + prop.lower())
    return mod


def run_check(prop, tier, seed, replay=None, nshards=NSHARDS):
    t0 = time.time()
    mod = _meta(prop)
    known, fixed = load_known()
    tasks = []
    if replay:
        data = json.load(open(replay))
        tasks.append(('replay', prop, 0, 1, seed, tier, REPO, dict(case=data['case'], name=os.path.basename(replay))))
    else:
        rdir = os.path.join(HOME, 'regressions', prop)
        if os.path.isdir(rdir):
            for i, f in enumerate(sorted(os.listdir(rdir))):
                if f.endswith('.json'):
                    data = json.load(open(os.path.join(rdir, f)))
                    tasks.append(('replay', prop, 1000 + i, 1, seed, tier, REPO, dict(case=data['case'], name=f)))
        n = getattr(mod, 'NSHARDS', nshards)
        for k in range(n):
            tasks.append(('shard', prop, k, n, seed, tier, REPO, None))

    results = _run_tasks(tasks, int(os.environ.get('VERIF_PROCS', '16')),
                         float(os.environ.get('VERIF_TASK_TIMEOUT', '600' if tier == 'quick' else '14400')))

    errors = [r for r in results if r['error']]
    evaluations = sum(r['evaluations'] for r in results)
    nontrivial = set()
    classes, excluded = collections.Counter(), collections.Counter()
    samples, sub = [], collections.OrderedDict()
    by_sig = collections.OrderedDict()
    for r in results:
        nontrivial.update(r['nontrivial'])
        classes.update(r['classes'])
        excluded.update(r['excluded'])
        for s in r['samples']:
            if len(samples) < MAX_SAMPLES:
                samples.append(s)
        for name, d in r['sub'].items():
            t = sub.setdefault(name, {'evaluations': 0})
            t['evaluations'] += d['evaluations']
            for k2 in ('exhaustive', 'space'):
                if k2 in d:
                    t[k2] = d[k2]
        for v in r['violations']:
            cur = by_sig.get(v['signature'])
            if cur is None:
                by_sig[v['signature']] = dict(v)
            else:
                cur['count'] += v['count']
                if v['size'] < cur['size']:
                    cur.update(message=v['message'], case=v['case'], size=v['size'])

    out_lines, new_violations, known_hits = [], [], []
    for sig, v in by_sig.items():
        k = known_match(prop, sig, known)
        if k is not None:
            known_hits.append(dict(signature=sig, count=v['count'], what=k['what']))
            out_lines.append(f"KNOWN-FINDING: property={prop} signature={sig} count={v['count']} {k['what']}")
        else:
            rdir = os.path.join(HOME, 'replays', prop)
            os.makedirs(rdir, exist_ok=True)
            path = os.path.join(rdir, digest([sig, v['case']]) + '.json')
            with open(path, 'w') as f:
                json.dump(dict(property=prop, signature=sig, message=v['message'], case=v['case']), f, indent=1)
            new_violations.append(dict(signature=sig, count=v['count'], replay=path, message=v['message']))
            out_lines.append(f"VIOLATION property={prop} replay={path}")
            out_lines.append(f"  signature={sig} count={v['count']} :: {v['message'][:600]}")

    wall = time.time() - t0
    status = 0
    floor = getattr(mod, 'MIN_NONTRIVIAL', {}).get(tier, 2)
    notes = []
    if errors:
        status = 2
        for r in errors[:3]:
            notes.append(f"HARNESS-ERROR shard={r['shard']}:\n{r['error']}")
    if not replay and len(nontrivial) < floor and not errors:
        status = 2
        notes.append(f"INCONCLUSIVE: generator degenerate, distinct non-trivial cases {len(nontrivial)} < floor {floor}")
    if new_violations:
        status = 1

    if not replay:
        ev = dict(
            property_id=prop, tier=tier, seed=int(seed), level='exploration',
            coverage=dict(
                evaluations=int(evaluations), distinct_nontrivial=len(nontrivial),
                rule=mod.RULE, samples=samples or [{'note': 'no sample recorded'}],
                classes=dict(sorted(classes.items())), excluded_by_construction=dict(excluded),
                subchecks=sub, exhaustive=bool(getattr(mod, 'EXHAUSTIVE', False)),
                shards=len([t for t in tasks if t[0] == 'shard']),
                regression_replays=len([t for t in tasks if t[0] == 'replay']),
                technique=getattr(mod, 'TECHNIQUE', ''),
            ),
            assumptions=list(getattr(mod, 'ASSUMPTIONS', [])),
            wall_s=round(wall, 2), violations=len(new_violations),
            known_findings=known_hits,
            new_violations=[dict(signature=v['signature'], count=v['count'], replay=v['replay']) for v in new_violations],
            harness_status=status,
        )
        # evidence describes runs against /repo itself; a run against a scratch copy (seeded change, mutant) must not overwrite it
        edir = os.environ.get('VERIF_EVIDENCE_DIR') or (os.path.join(HOME, 'evidence') if os.path.realpath(REPO) == '/repo'
                                                        else os.path.join(tempfile.gettempdir(), 'vf-evidence-scratch'))
        os.makedirs(edir, exist_ok=True)
        tmp = os.path.join(edir, f'.{prop}.json.tmp')
        with open(tmp, 'w') as f:
            json.dump(ev, f, indent=1)
        os.replace(tmp, os.path.join(edir, f'{prop}.json'))

    for l in out_lines:
        print(l)
    for n_ in notes:
        print(n_)
    print(f"[{prop}] tier={tier} seed={seed} evaluations={evaluations} distinct_nontrivial={len(nontrivial)} "
          f"violations={len(new_violations)} known={len(known_hits)} wall={wall:.1f}s exit={status}")
    if classes:
        print(f"[{prop}] classes: " + ', '.join(f'{k}={v}' for k, v in sorted(classes.items())))
    if excluded:
        print(f"[{prop}] excluded: " + ', '.join(f'{k}={v}' for k, v in sorted(excluded.items())))
    return status


# ----------------------------------------------------------------------------- hypothesis glue
class _Found(Exception):
    pass


def hyp_search(acc, strategy, check_case, max_examples, seed, tier='quick', shrink_calls=120,
               known=(), describe=None, stateful_step_count=None, max_shrink_sigs=3):
    """Collect-then-shrink.  `check_case(case)` returns a dict with keys
    key, nontrivial, classes, sample, violations=[(signature, message)], excluded=[names].
    Pass 1 explores `max_examples` generated cases and records every violation (never raises, so
    Hypothesis keeps generating).  Pass 2 re-runs the same seeded generation for every signature not
    listed as known, raises on it, and lets Hypothesis shrink within a bounded number of calls."""
    import hypothesis
    from hypothesis import given, settings, HealthCheck, Phase

    describe = describe or (lambda c: c)
    found = collections.OrderedDict()

    def record(case, res, count=True):
        if count:
            for e in res.get('excluded', ()):
                acc.exclude(e)
            acc.case(key=res.get('key'), nontrivial=res.get('nontrivial', False),
                     classes=res.get('classes', ()), sample=res.get('sample'), sub=res.get('sub'))
        for sig, msg in res.get('violations', ()):
            acc.violation(sig, msg, describe(case))
            found.setdefault(sig, None)

    base = dict(database=None, deadline=None, report_multiple_bugs=False, derandomize=False,
                suppress_health_check=list(HealthCheck), print_blob=False)

    @hypothesis.seed(seed)
    @settings(max_examples=max_examples, phases=[Phase.generate], **base)
    @given(strategy)
    def explore(case):
        record(case, check_case(case))

    explore()

    todo = [s for s in found if not any(s == k or fnmatch.fnmatchcase(s, k) for k in known)]
    for sig in todo[:max_shrink_sigs]:
        state = dict(calls=0, failing=0)

        @hypothesis.seed(seed)
        @settings(max_examples=max_examples, phases=[Phase.generate, Phase.shrink], **base)
        @given(strategy)
        def hunt(case):
            if state['failing'] and state['calls'] >= shrink_calls:
                return
            res = check_case(case)
            if state['failing']:
                state['calls'] += 1
            for s, msg in res.get('violations', ()):
                if s == sig:
                    state['failing'] += 1
                    acc.violation(s, msg, describe(case))
                    raise _Found()

        try:
            hunt()
        except BaseException:
            pass
