"""Bench driver: a real jesse session state without the simulator.

Builds the state exactly as research._isolated_backtest does up to the simulator call (config
injection, router.initiate -> store.reset, candle store, _prepare_routes with a real Strategy
subclass so that closing a position cancels everything resting "as the strategy layer does"),
then lets a test drive Order(...) / execute / cancel / broker calls and move the price.

An event recorder wraps Order.__init__/execute/cancel so reference models can be fed from what
actually happened (the attached strategy layer legitimately cancels orders on its own).
"""
import numpy as np

EX = 'VfEx'
T0 = 1_600_000_000_000 - (1_600_000_000_000 % 86_400_000)  # a midnight, so every timeframe is aligned


class Recorder:
    """Wraps Order.__init__/execute/cancel (class attributes, so jesse's own calls are seen too)."""

    def __init__(self):
        self.events = []
        self.orders = []  # every Order ever constructed, by ordinal
        self._installed = False

    def install(self):
        from jesse.models import Order
        if getattr(Order, '_vf_wrapped', False):
            Order._vf_recorder = self
            return
        orig_init, orig_exec, orig_cancel = Order.__init__, Order.execute, Order.cancel

        def __init__(o, attributes=None, should_silent=False, **kw):
            rec = Order._vf_recorder
            o._vf_ord = None
            try:
                orig_init(o, attributes, should_silent, **kw)
            except BaseException as e:
                if rec is not None:
                    rec.on_reject(o, e)
                raise
            if rec is not None:
                rec.on_submit(o)

        def execute(o, silent=False):
            rec = Order._vf_recorder
            before = o.status
            if rec is not None:
                rec.on_execute_begin(o, before)
            try:
                orig_exec(o, silent)
            finally:
                if rec is not None:
                    rec.on_execute_end(o, before)

        def cancel(o, silent=False, source=''):
            rec = Order._vf_recorder
            before = o.status
            try:
                orig_cancel(o, silent, source)
            finally:
                if rec is not None:
                    rec.on_cancel(o, before)

        Order.__init__, Order.execute, Order.cancel = __init__, execute, cancel
        Order._vf_wrapped = True
        Order._vf_recorder = self

    def uninstall(self):
        from jesse.models import Order
        Order._vf_recorder = None

    # -- callbacks (overridable) -----------------------------------------------------------
    def _now(self):
        from jesse.store import store
        return store.app.time

    def on_submit(self, o):
        o._vf_ord = len(self.orders)
        self.orders.append(o)
        self.events.append(dict(ev='submit', ord=o._vf_ord, symbol=o.symbol, side=o.side, type=o.type, qty=o.qty,
                                price=o.price, reduce_only=bool(o.reduce_only), t=self._now()))

    def on_reject(self, o, e):
        self.events.append(dict(ev='reject', symbol=getattr(o, 'symbol', None), side=getattr(o, 'side', None),
                                type=getattr(o, 'type', None), qty=getattr(o, 'qty', None), price=getattr(o, 'price', None),
                                reduce_only=bool(getattr(o, 'reduce_only', False)), error=type(e).__name__, t=self._now()))

    def on_execute_begin(self, o, before):
        self.events.append(dict(ev='execute', ord=o._vf_ord, before=before, t=self._now(), phase='begin'))

    def on_execute_end(self, o, before):
        self.events.append(dict(ev='execute', ord=o._vf_ord, before=before, after=o.status, t=self._now(), phase='end'))

    def on_cancel(self, o, before):
        self.events.append(dict(ev='cancel', ord=o._vf_ord, before=before, after=o.status, t=self._now()))


def format_config(exchange_type, fee, balance, leverage=1, mode='cross', name=EX, warm_up=0):
    c = {'starting_balance': balance, 'fee': fee, 'type': exchange_type, 'exchange': name, 'warm_up_candles': warm_up}
    if exchange_type == 'futures':
        c['futures_leverage'] = leverage
        c['futures_leverage_mode'] = mode
    return c


class Bench:
    def __init__(self, exchange_type='futures', fee=0.0, balance=10_000.0, leverage=1, mode='cross',
                 symbols=('BTC-USDT',), prices=None, strategy_cls=None, timeframe='1m'):
        import jesse.helpers as jh
        from jesse.config import config, set_config
        from jesse.research.backtest import _format_config
        from jesse.routes import router
        from jesse.store import store
        from jesse.modes import backtest_mode
        from jesse.strategies import Strategy

        if strategy_cls is None:
            class Inert(Strategy):
                def should_long(self):
                    return False

                def should_cancel_entry(self):
                    return False

                def go_long(self):
                    pass
            strategy_cls = Inert

        self.exchange_name = EX
        self.symbols = list(symbols)
        config['app']['trading_mode'] = 'backtest'
        jh.CACHED_CONFIG.clear()
        set_config(_format_config(format_config(exchange_type, fee, balance, leverage, mode)))
        routes = [{'exchange': EX, 'strategy': strategy_cls, 'symbol': s, 'timeframe': timeframe} for s in self.symbols]
        router.initiate(routes, [])
        jh.CACHED_CONFIG.clear()
        store.candles.init_storage(5000)
        store.app.starting_time = T0
        store.app.time = T0
        backtest_mode._prepare_routes()
        from jesse.services.api import api
        if EX not in api.drivers:
            api.initiate_drivers()
        self.store = store
        self.router = router
        self.exchange = store.exchanges.storage[EX]
        self.positions = {s: store.positions.storage[f'{EX}-{s}'] for s in self.symbols}
        self.strategies = {r.symbol: r.strategy for r in router.routes}
        self.minute = 0
        prices = prices or {s: 100.0 for s in self.symbols}
        for s in self.symbols:
            self.set_price(s, prices[s], advance=False)
        self.rec = Recorder()
        self.rec.install()

    def close(self):
        self.rec.uninstall()

    # ------------------------------------------------------------------------------------
    def set_price(self, symbol, price, advance=True):
        """A new stored 1m candle at `price` (flat), like the simulator does before matching."""
        if advance:
            self.minute += 1
        ts = T0 + self.minute * 60_000
        self.store.app.time = ts + 60_000
        c = np.array([ts, price, price, price, price, 1.0])
        self.store.candles.add_candle(c, EX, symbol, '1m', with_execution=False, with_generation=False)
        self.positions[symbol].current_price = price

    def order(self, symbol, side, type_, qty, price, reduce_only=False, add_to_store=True):
        import jesse.helpers as jh
        from jesse.models import Order
        o = Order({'id': jh.generate_unique_id(), 'symbol': symbol, 'exchange': EX, 'side': side, 'type': type_,
                   'reduce_only': reduce_only, 'qty': jh.prepare_qty(qty, side), 'price': price})
        if add_to_store:
            self.store.orders.add_order(o)
        return o
