"""Session driver: one jesse.research.backtest call on a generated session, with a full trace.

spec (JSON-able dict):
  cfg      : {type, fee, balance, leverage, mode, warm_up}
  routes   : [{symbol, timeframe}]            (strategy = ScriptedStrategy driven by scripts[symbol])
  data     : [{symbol, timeframe}]            (data routes)
  candles  : {symbol: [[ts,o,c,h,l,v], ...]}  one-minute candles starting at T0
  warmup   : {symbol: [...]} | None           one-minute candles ending right before T0
  scripts  : {symbol: {rows: [...], tick: float, unit: float}}
  fast     : bool
  hp       : dict | None

No source hooks: Order.__init__/execute/cancel and the backtest_mode matching entry points are wrapped
from outside (they are class attributes / module globals resolved at call time).
"""
import copy

import numpy as np

from vf.drive.bench import EX as DEFAULT_EX, T0, Recorder, format_config

CUR_EX = [DEFAULT_EX]  # exchange name of the session being run

CURRENT = [None]


class Ctx:
    def __init__(self, spec, obs='light'):
        self.spec = spec
        self.obs = obs  # 'light' | 'candles'
        self.trace = Trace()
        self.phase = 'init'
        self.final = None
        self.strategies = {}
        self.hook_error = None


# ------------------------------------------------------------------------------------------------
class SessionRecorder(Recorder):
    def __init__(self, ctx):
        super().__init__()
        self.ctx = ctx
        self.events = ctx.trace

    def _strategy_price(self, symbol):
        from jesse.routes import router
        for r in router.routes:
            if r.symbol == symbol and r.strategy is not None:
                try:
                    return float(r.strategy.price), r.strategy
                except Exception:  # noqa
                    return None, r.strategy
        return None, None

    def on_submit(self, o):
        from jesse.services import selectors
        o._vf_ord = len(self.orders)
        self.orders.append(o)
        p = selectors.get_position(o.exchange, o.symbol)
        sprice, strat = self._strategy_price(o.symbol)
        decl = None
        if strat is not None and self.ctx.obs != 'off':
            decl = {k: (None if getattr(strat, k) is None else np.array(getattr(strat, k), dtype=float).reshape(-1, 2).tolist())
                    for k in ('buy', 'sell', 'stop_loss', 'take_profit')} if _declarable(strat) else None
        self.events.append(dict(ev='submit', ord=o._vf_ord, sym=o.symbol, side=o.side, type=o.type, qty=float(o.qty),
                                price=None if o.price is None else float(o.price), reduce_only=bool(o.reduce_only),
                                t=self._now(), created_at=o.created_at, phase=self.ctx.phase,
                                cur=None if p is None or p.current_price is None else float(p.current_price),
                                sprice=sprice, pos_qty=None if p is None else float(p.qty),
                                pos_entry=None if p is None or p.entry_price is None else float(p.entry_price),
                                decl=decl))

    def on_reject(self, o, e):
        self.events.append(dict(ev='reject', sym=getattr(o, 'symbol', None), side=getattr(o, 'side', None),
                                type=getattr(o, 'type', None), qty=getattr(o, 'qty', None), price=getattr(o, 'price', None),
                                reduce_only=bool(getattr(o, 'reduce_only', False)), error=type(e).__name__, t=self._now(),
                                phase=self.ctx.phase))

    def on_execute_begin(self, o, before):
        from jesse.services import selectors
        p = selectors.get_position(o.exchange, o.symbol)
        ex = selectors.get_exchange(o.exchange)
        try:
            from jesse.store import store as _st
            mts = float(_st.candles.get_current_candle(o.exchange, o.symbol, '1m')[0])
        except Exception:  # noqa
            mts = None
        self.events.append(dict(ev='execute', ord=o._vf_ord, sym=o.symbol, before=before, t=self._now(), phase=self.ctx.phase, minute_ts=mts,
                                pos_qty_before=None if p is None else float(p.qty),
                                wallet_before=float(ex.assets[ex.settlement_currency])))

    def on_execute_end(self, o, before):
        from jesse.services import selectors
        p = selectors.get_position(o.exchange, o.symbol)
        ex = selectors.get_exchange(o.exchange)
        self.events.append(dict(ev='executed', ord=o._vf_ord, sym=o.symbol, before=before, after=o.status, t=self._now(),
                                executed_at=o.executed_at, pos_qty_after=None if p is None else float(p.qty),
                                pos_entry_after=None if p is None or p.entry_price is None else float(p.entry_price),
                                wallet_after=float(ex.assets[ex.settlement_currency])))

    def on_cancel(self, o, before):
        self.events.append(dict(ev='cancel', ord=o._vf_ord, sym=o.symbol, before=before, after=o.status, t=self._now(),
                                canceled_at=o.canceled_at, phase=self.ctx.phase))


def _declarable(strat):
    try:
        for k in ('buy', 'sell', 'stop_loss', 'take_profit'):
            v = getattr(strat, k)
            if v is not None:
                np.array(v, dtype=float).reshape(-1, 2)
        return True
    except Exception:  # noqa
        return False


# ------------------------------------------------------------------------------------------------
def install_sim_wrappers():
    from jesse.modes import backtest_mode as bm
    from jesse.store import store
    if getattr(bm, '_vf_wrapped', False):
        return
    o_spc, o_spcm, o_liq, o_out, o_daily = (bm._simulate_price_change_effect, bm._simulate_price_change_effect_multiple_candles,
                                            bm._check_for_liquidations, bm._generate_outputs, bm.save_daily_portfolio_balance)

    def spc(real_candle, exchange, symbol, *a, **k):  # extra arguments of a changed signature are passed through
        ctx = CURRENT[0]
        if ctx is None:
            return o_spc(real_candle, exchange, symbol, *a, **k)
        ctx.trace.append(dict(ev='minute', sym=symbol, candle=[float(x) for x in real_candle], t=store.app.time))
        prev, ctx.phase = ctx.phase, 'match'
        try:
            return o_spc(real_candle, exchange, symbol, *a, **k)
        finally:
            ctx.phase = prev
            ctx.trace.append(dict(ev='minute-end', sym=symbol, t=store.app.time))

    def spcm(short_candles, exchange, symbol, *a, **k):
        ctx = CURRENT[0]
        if ctx is None:
            return o_spcm(short_candles, exchange, symbol, *a, **k)
        ctx.trace.append(dict(ev='chunk', sym=symbol, candles=np.array(short_candles, dtype=float).tolist(), t=store.app.time))
        prev, ctx.phase = ctx.phase, 'match'
        try:
            return o_spcm(short_candles, exchange, symbol, *a, **k)
        finally:
            ctx.phase = prev
            ctx.trace.append(dict(ev='chunk-end', sym=symbol, t=store.app.time))

    def liq(candle, exchange, symbol, *a, **k):
        ctx = CURRENT[0]
        if ctx is None:
            return o_liq(candle, exchange, symbol, *a, **k)
        from jesse.services import selectors
        p = selectors.get_position(exchange, symbol)
        if p is None:  # a symbol that is only observed through a data route has no position
            return o_liq(candle, exchange, symbol, *a, **k)
        ex = selectors.get_exchange(exchange)
        before = dict(qty=float(p.qty), entry=None if p.entry_price is None else float(p.entry_price), mode=p.mode,
                      liq=None if p.is_close else float(p.liquidation_price), lev=None if p.strategy is None else p.leverage,
                      wallet=float(ex.assets[ex.settlement_currency]), n_liq=store.app.total_liquidations,
                      n_orders=len(ctx.recorder.orders), n_trades=len(store.completed_trades.trades),
                      active=[o._vf_ord for o in store.orders.get_active_orders(exchange, symbol) if o.is_active])
        prev, ctx.phase = ctx.phase, 'liquidation'
        try:
            return o_liq(candle, exchange, symbol, *a, **k)
        finally:
            ctx.phase = prev
            ctx.trace.append(dict(ev='liq-check', sym=symbol, candle=[float(x) for x in candle], t=store.app.time, before=before,
                                  after=dict(qty=float(p.qty), wallet=float(ex.assets[ex.settlement_currency]),
                                             n_liq=store.app.total_liquidations, n_orders=len(ctx.recorder.orders),
                                             n_trades=len(store.completed_trades.trades),
                                             still_active=[o._vf_ord for o in ctx.recorder.orders if o.symbol == symbol and o.is_active])))

    def daily(is_initial=False, *a, **k):
        ctx = CURRENT[0]
        r = o_daily(is_initial, *a, **k) if (is_initial or a or k) else o_daily()
        if ctx is not None:
            ctx.trace.append(dict(ev='daily-balance', t=store.app.time, value=float(store.app.daily_balance[-1]),
                                  n=len(store.app.daily_balance), snap=snapshot_accounts()))
        return r

    def out(*a, **k):
        ctx = CURRENT[0]
        if ctx is not None:
            ctx.phase = 'outputs'
            ctx.final = final_snapshot(ctx)
        return o_out(*a, **k)

    bm._simulate_price_change_effect = spc
    bm._simulate_price_change_effect_multiple_candles = spcm
    bm._check_for_liquidations = liq
    bm._generate_outputs = out
    bm.save_daily_portfolio_balance = daily
    bm._vf_wrapped = True


def snapshot_accounts():
    from jesse.store import store
    from jesse.routes import router
    ex = store.exchanges.storage[CUR_EX[0]]
    d = dict(assets={k: float(v) for k, v in ex.assets.items()}, positions={}, resting=[])
    for r in router.routes:
        p = store.positions.storage[f'{CUR_EX[0]}-{r.symbol}']
        d['positions'][r.symbol] = dict(qty=float(p.qty), entry=None if p.entry_price is None else float(p.entry_price),
                                        cur=None if p.current_price is None else float(p.current_price))
        for o in store.orders.get_orders(CUR_EX[0], r.symbol):
            if o.is_active:
                d['resting'].append(dict(sym=o.symbol, side=o.side, qty=float(o.qty), price=float(o.price), type=o.type,
                                         reduce_only=bool(o.reduce_only), ord=getattr(o, '_vf_ord', None)))
    return d


def final_snapshot(ctx):
    from jesse.store import store
    from jesse.routes import router
    trades = []
    for t in store.completed_trades.trades:
        trades.append(dict(sym=t.symbol, type=t.type, qty=float(t.qty), entry_price=float(t.entry_price), exit_price=float(t.exit_price),
                           opened_at=t.opened_at, closed_at=t.closed_at, pnl=float(t.pnl), fee=float(t.fee),
                           orders=[getattr(o, '_vf_ord', None) for o in t.orders],
                           buys=np.array(t.buy_orders[:], dtype=float).tolist(), sells=np.array(t.sell_orders[:], dtype=float).tolist(),
                           holding_period=t.holding_period))
    ex = store.exchanges.storage[CUR_EX[0]]
    fin = dict(trades=trades, daily_balance=[float(x) for x in store.app.daily_balance], accounts=snapshot_accounts(),
               total_liquidations=store.app.total_liquidations, total_open_trades=store.app.total_open_trades,
               starting_balance=float(ex.starting_assets[ex.settlement_currency]), time=store.app.time,
               hp={r.symbol: copy.deepcopy(r.strategy.hp) for r in router.routes})
    if ctx.obs == 'candles':
        fin['candles'] = read_all_candles(ctx)
    return fin


def read_all_candles(ctx):
    """Every (symbol, timeframe) a strategy can read, through the public getter. A read that raises is recorded."""
    from jesse.store import store
    out = {}
    for sym, tf in ctx.readable:
        try:
            out[f'{sym}|{tf}'] = np.array(store.candles.get_candles(CUR_EX[0], sym, tf), dtype=float).tolist()
        except Watchdog:
            raise  # the harness' own wall-clock stop is not a failed read
        except Exception as e:  # noqa
            out[f'{sym}|{tf}'] = {'error': f'{type(e).__name__}: {e}'}
    return out


# ------------------------------------------------------------------------------------------------
def _price(ref, off, tick):
    if isinstance(off, dict):
        if 'level' in off:
            return off['level']  # an absolute price level resolved by the caller
        return ref * (1 + off['rel'])
    return max(ref + off * tick, tick)


class _CtxProxy:
    """Stands for 'the context of the session being run': lets one strategy CLASS serve several sessions (C11 passes the same class
    object to several research.backtest calls, as a user does)."""

    def __getattr__(self, k):
        return getattr(CURRENT[0], k)

    def __setattr__(self, k, v):
        setattr(CURRENT[0], k, v)


REUSE_CLASSES = [False]  # set by the C11 child: equal (symbol, script) -> the same class object for every call of the process
_CLASS_MEMO = {}


def make_strategy(symbol, script, real_ctx):
    from jesse.strategies import Strategy, cached
    from jesse.store import store
    import json as _json
    memo_key = (symbol, _json.dumps(script, sort_keys=True, default=str))
    if REUSE_CLASSES[0] and memo_key in _CLASS_MEMO:
        real_ctx.strategies[symbol] = _CLASS_MEMO[memo_key]
        return _CLASS_MEMO[memo_key]
    ctx = _CtxProxy() if REUSE_CLASSES[0] else real_ctx
    rows = script.get('rows', [])
    tick = script['tick']
    unit = script['unit']
    raise_at = script.get('raise_at')  # (hook name, index) -> raise RuntimeError (C11)

    class Scripted(Strategy):
        def _row(self):
            i = self.index
            if script.get('cycle') and rows:
                return rows[i % len(rows)]
            return rows[i] if i < len(rows) else {}

        def _obs(self, name, order=None):
            p = self.position
            ev = dict(ev='hook', name=name, sym=symbol, idx=self.index, t=store.app.time, phase=ctx.phase,
                      ord=None if order is None else getattr(order, '_vf_ord', None))
            if ctx.obs != 'off':
                try:
                    ev['price'] = float(self.price)
                except Watchdog:
                    raise
                except Exception as e:  # noqa
                    ev['price'] = f'error:{type(e).__name__}'
                ev.update(pos_qty=float(p.qty), pos_entry=None if p.entry_price is None else float(p.entry_price),
                          balance=float(self.balance), margin=float(self.available_margin))
                ev['accounts'] = snapshot_accounts()
                if name in ('before', 'after'):
                    ev['active'] = [getattr(o, '_vf_ord', None) for o in store.orders.get_orders(CUR_EX[0], symbol) if o.is_active]
                if name == 'after':
                    ev['decl'] = {k: (None if getattr(self, k) is None else np.array(getattr(self, k), dtype=float).reshape(-1, 2).tolist())
                                  for k in ('stop_loss', 'take_profit')} if _declarable(self) else None
                    ev['via'] = {getattr(o, '_vf_ord', None): o.submitted_via for o in store.orders.get_orders(CUR_EX[0], symbol) if o.is_active}
            if ctx.obs == 'candles':
                ev['candles'] = read_all_candles(ctx)
                try:
                    ev['self_candles'] = np.array(self.candles, dtype=float).tolist()
                    ev['current_candle'] = np.array(self.current_candle, dtype=float).tolist()
                except Watchdog:
                    raise  # the harness' own wall-clock stop is not a failed read
                except Exception as e:  # noqa
                    ev['self_candles'] = {'error': f'{type(e).__name__}: {e}'}
            ctx.trace.append(ev)
            if raise_at is not None and raise_at[0] == name and raise_at[1] == self.index:
                raise RuntimeError('scripted hook failure')

        # ---- decisions -----------------------------------------------------------------
        def _gate_open(self):
            # optional: the decision also depends on a non-sequential, window-start dependent indicator value (on-balance volume over
            # what slice_candles keeps): whatever changes the indicator window changes the orders
            if script.get('shared'):
                # the documented cross-route scratch pad: every step counts itself there, decisions read the count
                if self.shared_vars.get('vf_steps', 0) % 4 == 3:
                    return False
            if script.get('cached') and int(round(self._vf_level() / tick)) % 2 == 1:
                return False
            if script.get('gate') != 'obv':
                return True
            import jesse.indicators as ta
            # on the 1m series: it is the one that outgrows the configured window (warm_up_candles) after a few minutes
            v = ta.obv(self.get_candles(self.exchange, self.symbol, '1m'))
            return (not np.isfinite(v)) or int(abs(v)) % 3 != 0

        @cached
        def _vf_level(self):
            # jesse's per-candle memo decorator for strategy methods
            return float(self.price)

        def should_long(self):
            return self._row().get('act') == 'long' and self._gate_open()

        def should_short(self):
            return self._row().get('act') == 'short' and self.exchange_type == 'futures' and self._gate_open()

        def should_cancel_entry(self):
            ans = bool(self._row().get('cancel', True))
            ctx.trace.append(dict(ev='cancel-q', sym=symbol, idx=self.index, t=store.app.time, answer=ans,
                                  resting=[getattr(o, '_vf_ord', None) for o in store.orders.get_orders(CUR_EX[0], symbol) if o.is_active]))
            return ans

        def _ref_price(self, r):
            """Reference price of an entry: the current price, or a value read from the candles the strategy can see."""
            ref = r.get('entry_ref')
            if not ref:
                return self.price
            if ref in ('high', 'low', 'open'):
                return float({'high': self.high, 'low': self.low, 'open': self.open}[ref])
            dtf = script.get('data_tf')
            if dtf:
                dc = self.get_candles(self.exchange, symbol, dtf)
                if len(dc):
                    if ref == 'data_high':
                        return float(dc[-1][3])
                    if ref == 'data_low':
                        return float(dc[-1][4])
                    if ref == 'data_prev_close' and len(dc) > 1:
                        return float(dc[-2][2])
                    if ref == 'data_open':
                        return float(dc[-1][1])
            return self.price

        def _entries(self, r, sign):
            p = self._ref_price(r)
            pts = []
            for frac, off in r.get('entry', [[1, 0]]):
                pts.append((unit * float((self.hp or {}).get('mult', 1)) * frac, _price(p, off if isinstance(off, dict) else sign * off, tick)))
            shape = r.get('shape', 'list')
            if shape == 'tuple' and len(pts) == 1:
                return pts[0]
            return [list(x) for x in pts] if shape == 'lists' else pts

        def _exits(self, spec, total_qty, ref_sl, ref_tp, long):
            out = {}
            for key, ref, sgn in (('sl', ref_sl, -1 if long else 1), ('tp', ref_tp, 1 if long else -1)):
                lad = spec.get(key)
                if not lad:
                    continue
                pts = []
                for frac, off in lad:
                    if isinstance(off, dict) and 'from_first_open' in off:
                        # a fixed price level: k ticks away from the very first candle's open the strategy can see
                        base = float(self.candles[0][1])
                        off = {'level': max(base + sgn * off['from_first_open'] * tick, tick)}
                    pts.append((total_qty * frac, _price(ref, off if isinstance(off, dict) else sgn * off, tick)))
                out[key] = pts[0] if (spec.get('shape') == 'tuple' and len(pts) == 1) else (np.array(pts, dtype=float) if spec.get('shape') == 'ndarray' else pts)
            return out

        def _declare(self, ex, read_avg=False):
            if 'sl' in ex:
                self.stop_loss = ex['sl']
            if 'tp' in ex:
                self.take_profit = ex['tp']
            if read_avg and self.position.is_open:
                # reading the documented convenience properties must have no effect
                try:
                    if 'sl' in ex:
                        _ = self.average_stop_loss
                    if 'tp' in ex:
                        _ = self.average_take_profit
                except Watchdog:
                    raise
                except Exception:  # noqa
                    pass

        def go_long(self):
            r = self._row()
            self._obs('go_long')
            self.buy = self._entries(r, -1)  # positive offset = better price for a buy = lower
            if r.get('exits_at') == 'go' and self.exchange_type == 'futures':
                prices = [x[1] for x in (self.buy if isinstance(self.buy, list) else [self.buy])]
                total = sum(x[0] for x in (self.buy if isinstance(self.buy, list) else [self.buy]))
                self._declare(self._exits(r, total, min(prices), max(prices), True))

        def go_short(self):
            r = self._row()
            self._obs('go_short')
            self.sell = self._entries(r, 1)
            if r.get('exits_at') == 'go':
                prices = [x[1] for x in (self.sell if isinstance(self.sell, list) else [self.sell])]
                total = sum(x[0] for x in (self.sell if isinstance(self.sell, list) else [self.sell]))
                self._declare(self._exits(r, total, max(prices), min(prices), False))

        def on_open_position(self, order):
            self._obs('on_open_position', order)
            r = self._row()
            if r.get('exits_at') == 'open':
                e = self.position.entry_price
                self._declare(self._exits(r, abs(self.position.qty), e, e, self.is_long))

        def _apply(self, a):
            if not a:
                return
            # a reaction that triggers a fill whose hook reacts again could ping-pong forever inside one candle:
            # the scripted strategy reacts at most 4 times per strategy step (a rule of the program, not of jesse)
            key = self.index
            if getattr(self, '_react_idx', None) != key:
                self._react_idx, self._react_n = key, 0
            self._react_n += 1
            if self._react_n > 4:
                return
            k = a['kind']
            long = self.is_long
            q = abs(self.position.qty)
            if k in ('sl', 'tp', 'both'):
                ref = self.price if a.get('ref', 'price') == 'price' else self.position.entry_price
                self._declare(self._exits(a, q, ref, ref, long), read_avg=bool(a.get('read_avg')))
            elif k in ('nudge_sl', 'nudge_tp'):
                # in-place edit of the declared array (what `self.stop_loss[0, 1] = x` does in a user strategy)
                arr = self.stop_loss if k == 'nudge_sl' else self.take_profit
                if isinstance(arr, np.ndarray) and arr.ndim == 2 and len(arr) > 0:
                    sgn = (-1 if long else 1) if k == 'nudge_sl' else (1 if long else -1)
                    newp = arr[0, 1] + sgn * a.get('off', 1) * tick
                    if newp > 0:
                        arr[0, 1] = newp
            elif k == 'clear':
                # a declaration without rows withdraws the exits of that kind
                if a.get('which') == 'sl' and self.stop_loss is not None:
                    self.stop_loss = []
                elif a.get('which') == 'tp' and self.take_profit is not None:
                    self.take_profit = []
            elif k == 'add':
                pts = [(unit * a.get('frac', 1), _price(self.price, (-1 if long else 1) * a.get('off', 0), tick))]
                if long:
                    self.buy = pts
                else:
                    self.sell = pts
            elif k == 'liq':
                self.liquidate()
            elif k == 'flip':
                if self.exchange_type == 'futures':
                    if long:
                        self.broker.sell_at_market(q * a.get('k', 2))
                    else:
                        self.broker.buy_at_market(q * a.get('k', 2))

        def update_position(self):
            self._obs('update_position')
            self._apply(self._row().get('upd'))

        def on_reduced_position(self, order):
            self._obs('on_reduced_position', order)
            self._apply(self._row().get('on_red'))

        def on_increased_position(self, order):
            self._obs('on_increased_position', order)
            self._apply(self._row().get('on_inc'))

        def on_close_position(self, order):
            self._obs('on_close_position', order)
            if script.get('read_metrics'):
                _ = self.metrics

        def on_cancel(self):
            self._obs('on_cancel')

        def before(self):
            if script.get('shared'):
                self.shared_vars['vf_steps'] = self.shared_vars.get('vf_steps', 0) + 1
            self._obs('before')
            if script.get('read_metrics'):
                _ = self.metrics  # the documented read-only view of the session's performance so far
            if script.get('no_update') and self.position.is_open:
                # a strategy without an update_position() of its own manages its position from before()
                self._apply(self._row().get('upd'))

        def after(self):
            self._obs('after')

        def before_terminate(self):
            ctx.phase = 'terminate'
            self._obs('before_terminate')

        def terminate(self):
            if script.get('cached'):
                self._vf_level()
            self._obs('terminate')

        def hyperparameters(self):
            # specs travel as JSON: the type of a hyperparameter may be given by name
            return [dict(d, type={'float': float, 'int': int}.get(d.get('type'), d.get('type'))) for d in script.get('hyperparameters', [])]

        def dna(self):
            return script.get('dna', '')

    if script.get('no_update'):
        del Scripted.update_position  # the base class' empty update_position() is inherited
    Scripted.__name__ = 'Scripted_' + symbol.replace('-', '_')
    real_ctx.strategies[symbol] = Scripted
    if REUSE_CLASSES[0]:
        _CLASS_MEMO[memo_key] = Scripted
    return Scripted


# ------------------------------------------------------------------------------------------------
def build_args(spec, ctx):
    cfg = spec['cfg']
    config = format_config(cfg['type'], cfg['fee'], cfg['balance'], cfg.get('leverage', 1), cfg.get('mode', 'cross'),
                           name=cfg.get('exchange', DEFAULT_EX), warm_up=cfg.get('warm_up', 0))
    ex = config['exchange']
    routes = [{'exchange': ex, 'strategy': make_strategy(r['symbol'], spec['scripts'][r['symbol']], ctx), 'symbol': r['symbol'],
               'timeframe': r['timeframe']} for r in spec['routes']]
    data = [{'exchange': ex, 'symbol': d['symbol'], 'timeframe': d['timeframe']} for d in spec.get('data', [])]
    candles = {f"{ex}-{s}": {'exchange': ex, 'symbol': s, 'candles': np.array(c, dtype=float)} for s, c in spec['candles'].items()}
    warm = None
    if spec.get('warmup'):
        warm = {f"{ex}-{s}": {'exchange': ex, 'symbol': s, 'candles': np.array(c, dtype=float)} for s, c in spec['warmup'].items()}
    readable = []
    for r in spec['routes']:
        readable.append((r['symbol'], r['timeframe']))
    for d in spec.get('data', []):
        readable.append((d['symbol'], d['timeframe']))
    for s in spec['candles']:
        readable.append((s, '1m'))
    ctx.readable = sorted(set(readable))
    return config, routes, data, candles, warm


def _freeze(x):
    if isinstance(x, dict):
        return {k: _freeze(v) for k, v in x.items()}
    if isinstance(x, (list, tuple)):
        return [_freeze(v) for v in x]
    if isinstance(x, np.ndarray):
        return ('ndarray', x.dtype.str, x.shape, x.tobytes())
    if isinstance(x, type):
        return ('class', x.__name__)
    return x


class Watchdog(Exception):
    """Raised inside a session that exceeds its time limit (a generated program can make jesse ping-pong forever inside one
    candle, e.g. wrong-side exits larger than the position flipping it back and forth); the run then counts as aborted."""


_ARMED = [False]
TRACE_CAP = 400_000


def _alarm(signum, frame):
    # the timer repeats: an exception raised inside a gc callback or a broad `except` of the tested code is swallowed there
    if _ARMED[0]:
        raise Watchdog('session exceeded its time limit')


class Trace(list):
    """Event list with a hard cap: a runaway session (orders created in an endless loop) is stopped by size as well as by time."""

    def append(self, item):
        if len(self) >= TRACE_CAP and _ARMED[0]:
            raise Watchdog('session exceeded its event limit')
        list.append(self, item)


def run(spec, obs='light', clean_globals=True, check_args=False, reuse_args=None):
    """Runs one session. Returns dict(result, error, trace, final, orders)."""
    import signal
    import threading
    use_alarm = threading.current_thread() is threading.main_thread() and hasattr(signal, 'setitimer')
    import jesse.helpers as jh
    from jesse import research
    ctx = Ctx(spec, obs)
    install_sim_wrappers()
    rec = SessionRecorder(ctx)
    ctx.recorder = rec
    rec.install()
    CURRENT[0] = ctx
    config, routes, data, candles, warm = build_args(spec, ctx)
    if reuse_args is not None:
        # the caller keeps its route / data-route list objects (and the dicts in them) from an earlier call and edits them in place
        for new_list, key in ((routes, 'routes'), (data, 'data_routes')):
            old_list = reuse_args.get(key)
            if isinstance(old_list, list):
                while len(old_list) > len(new_list):
                    old_list.pop()
                for i, d in enumerate(new_list):
                    if i < len(old_list):
                        old_list[i].clear()
                        old_list[i].update(d)
                    else:
                        old_list.append(d)
        routes = reuse_args['routes'] if isinstance(reuse_args.get('routes'), list) else routes
        data = reuse_args['data_routes'] if isinstance(reuse_args.get('data_routes'), list) else data
    CUR_EX[0] = config['exchange']
    if clean_globals:
        # The harness isolates sessions from each other (C11 is the property that checks jesse doing so itself).
        from jesse.config import config as jc
        jc['app']['considering_exchanges'] = [config['exchange']]
        jh.CACHED_CONFIG.clear()
        from jesse.services.api import api
        api.drivers.clear()
        api.initiate_drivers()
        jh.CACHED_CONFIG.clear()
    result, error = None, None
    frozen = _freeze(dict(config=config, routes=routes, data_routes=data, candles=candles, warmup_candles=warm, hyperparameters=spec.get('hp'))) if check_args else None
    hp_arg = spec.get('hp')
    n_min = max(len(v['candles']) for v in candles.values())
    limit = float(spec.get('time_limit', 20 + n_min / 40))
    if use_alarm:
        old_handler = signal.signal(signal.SIGALRM, _alarm)
        signal.setitimer(signal.ITIMER_REAL, limit, 1.0)
    _ARMED[0] = True
    try:
        result = research.backtest(config, routes, data, candles, warmup_candles=warm, hyperparameters=hp_arg,
                                   fast_mode=bool(spec.get('fast')), **({'generate_logs': True} if spec.get('logs') else {}))
    except Exception as e:  # noqa
        import traceback
        error = dict(type=type(e).__name__, msg=str(e)[:500], tb=traceback.format_exc()[-1500:])
    finally:
        _ARMED[0] = False
        if use_alarm:
            signal.setitimer(signal.ITIMER_REAL, 0)
            signal.signal(signal.SIGALRM, old_handler)
        CURRENT[0] = None
        rec.uninstall()
    orders = []
    for o in rec.orders:
        orders.append(dict(ord=o._vf_ord, sym=o.symbol, side=o.side, type=o.type, qty=float(o.qty),
                           price=None if o.price is None else float(o.price), reduce_only=bool(o.reduce_only), status=o.status,
                           created_at=o.created_at, executed_at=o.executed_at, canceled_at=o.canceled_at, via=o.submitted_via))
    out = dict(result=result, error=error, trace=ctx.trace, final=ctx.final, orders=orders)
    # jesse keeps Position objects alive in an lru_cache (Position._min_qty), and through them the strategy, its class and this context:
    # drop the heavy references so that old sessions do not pin their traces in memory
    ctx.trace, ctx.final, ctx.recorder, ctx.spec = None, None, None, None
    ctx.strategies.clear()
    rec.ctx, rec.events, rec.orders = None, None, []
    if check_args:
        live = dict(config=config, routes=routes, data_routes=data, candles=candles, warmup_candles=warm, hyperparameters=hp_arg)
        after = _freeze(live)
        out['args_modified'] = [k for k in after if after[k] != frozen[k]]
        out['_live_args'] = (live, frozen)  # so that a caller can re-check them after LATER calls
    return out
