#!/bin/bash
# tools/run_all.sh [tier]  -- runs every registered check sequentially, prints a one-line summary each
TIER=${1:-quick}
cd "$(dirname "$0")/.."
for p in $(/venv/bin/python -c "import json;print(' '.join(c['property_id'] for c in json.load(open('MANIFEST.json'))['checks']))"); do
  s=$(date +%s)
  ./check $p --tier $TIER > /tmp/runall_${TIER}_$p.log 2>&1; rc=$?
  e=$(date +%s)
  echo "$p rc=$rc $((e-s))s $(grep -c '^KNOWN' /tmp/runall_${TIER}_$p.log) known; $(grep "^\[$p\] tier" /tmp/runall_${TIER}_$p.log | cut -c1-150)"
done
