#!/venv/bin/python
"""Regenerates /verif/MANIFEST.json from the property modules present under vf/props."""
import importlib, json, os, sys
HOME = os.path.dirname(os.path.dirname(os.path.abspath(__file__)))
sys.path.insert(0, HOME)
props = [json.loads(l) for l in open(os.path.join(HOME, 'properties.jsonl'))]
checks, na = [], []
for p in props:
    pid = p['id']
    path = os.path.join(HOME, 'vf', 'props', pid.lower() + '.py')
    if not os.path.exists(path):
        na.append(dict(property_id=pid, reason='check not built yet in this revision (planned: see DESIGN.md section 3); not a limit of the technique'))
        continue
    mod = importlib.import_module('vf.props.' + pid.lower())
    checks.append(dict(
        property_id=pid,
        quick_cmd=f'./check {pid} --tier quick',
        thorough_cmd=f'./check {pid} --tier thorough',
        evidence_file=f'/verif/evidence/{pid}.json',
        replay_cmd_template=f'./check {pid} --replay {{path}}',
        engine='vf',
        level_claimed=dict(category='exploration', text=getattr(mod, 'LEVEL_TEXT', 'Generated-input search (Hypothesis + bounded enumeration) against an explicit oracle; finds counterexamples, proves nothing.'),
                           design_ref=f'DESIGN.md section 3, {pid}'),
        level_note=getattr(mod, 'LEVEL_NOTE', '; '.join(getattr(mod, 'ASSUMPTIONS', [])) or 'trusted: the reference model in vf/, numpy, hypothesis'),
        technique=getattr(mod, 'TECHNIQUE', 'property-based testing'),
    ))
man = dict(
    version=1,
    setup_cmd='/venv/bin/python -c "import hypothesis" 2>/dev/null || /venv/bin/pip install -q --no-index --find-links /opt/veriftools/wheels hypothesis',
    hooks=dict(guard='JESSE_VERIF', enable='none needed: the harness wraps public/module-level callables at run time; no guarded source hooks exist in /repo',
               baseline_off_cmd='cd /repo && /venv/bin/python -m pytest -ra -q -p no:cacheprovider --timeout=900 --continue-on-collection-errors',
               source_commits=[], add_only=True),
    engines=[dict(name='vf', path='/verif/vf', serves_properties=[c['property_id'] for c in checks],
                  kind_free_text='Hypothesis-driven generators + bounded enumeration, reference models, sharded over 16 processes, collect-then-shrink, JSON replay files')],
    checks=checks,
    notes='Every check: exit 0 held / exit 1 + VIOLATION line / exit 2 harness error or inconclusive. Known findings: /verif/KNOWN_FINDINGS.txt. Seed via VERIF_SEED.',
    not_applicable=na,
)
json.dump(man, open(os.path.join(HOME, 'MANIFEST.json'), 'w'), indent=1)
print('checks:', [c['property_id'] for c in checks], 'not claimed:', len(na))
