#!/venv/bin/python
"""Regenerates /verif/MANIFEST.json from the property modules present under vf/props."""
import importlib, json, os, sys
HOME = os.path.dirname(os.path.dirname(os.path.abspath(__file__)))
sys.path.insert(0, HOME)
props = [json.loads(l) for l in open(os.path.join(HOME, 'properties.jsonl'))]
checks, na = [], []
LEVEL = {
 'C01': 'Exploration of a 2-run hyperproperty: each generated session is run on two candle series that agree before a drawn cut; any difference in the projected prefix trace (exact floats, all candle arrays) is a counterexample. Right level because the property relates pairs of executions; finds look-ahead, proves nothing.',
 'C02': 'Exploration with a per-order oracle: every order of every generated run is judged against the normalised input candles (first minute whose range contains the price). Bounded by the program language and session sizes.',
 'C03': 'Model-based exploration of operation histories against an average-cost margin account reference; exact decimal sizes, 1e-9 balances, boundary band for the rejection rule.',
 'C04': 'Model-based exploration of operation histories against a cash-account reference (reserve / release / settle), including bracket and modify operations; position size must be bit-identical to the base balance.',
 'C05': 'Model-based exploration of Broker/Sandbox call histories: one terminal transition, bit-identical snapshots for calls on final orders, registry equality, one trade per executed order; plus every order of generated sessions.',
 'C06': 'Exploration: fills of generated sessions folded through a reference cycle automaton; hooks, trade log fields and the futures wallet identity are compared.',
 'C07': 'Differential exploration: every candle array a strategy can read is compared with a reference aggregation of the stored 1m candles at every hook of generated sessions (both simulators) plus direct helper tests.',
 'C08': 'Exhaustive for split_candle on a half-tick lattice; bounded-exhaustive (thorough) / sampled (quick) for in-minute ordering on a price lattice through the real matching function; random sessions judged by the same continuous-path predicate.',
 'C09': 'Boundary-directed exploration (touch / one-ulp miss / gap) on a real isolated-margin state plus generated sessions; every liquidation check is judged by an independent oracle.',
 'C10': 'Exploration over generated strategy programs: routing decision table and injective matching of active exits onto the latest declaration, evaluated from the trace.',
 'C11': 'Differential exploration across fresh interpreters: probe after a generated call history vs probe alone; arguments compared bit-for-bit.',
 'C12': 'Differential exploration of the two simulators on sessions constructed to satisfy the eligibility precondition (verified on the trace).',
 'C13': 'Metamorphic exploration (prefix relation) over all ~168 indicators, generated series, parameters and prefix lengths; violations bucketed per (indicator, field).',
 'C14': 'Differential exploration sequential vs single-value API around the 240-candle window for all indicators, generated parameters and source types.',
 'C15': 'Differential exploration against independent textbook implementations (exact for window functions, recurrence step and value-after-decay for smoothers), selector table, range/ordering/homogeneity laws; thorough sweeps every period 2..60 x source type.',
 'C16': 'Differential exploration of metrics.trades against a reference over generated trade lists / equity series, and an equity-sample oracle over generated multi-day sessions.',
 'C17': 'Exploration with boundary-directed generators, exact rational / decimal oracles and an end-to-end acceptance differential; exhaustive for the timeframe tables and all timeframe subsets of size <= 3.',
 'C18': 'Bounded-exhaustive over all mutator sequences up to length 4 (quick) / 5 (thorough) for bucket sizes 2,3 plus Hypothesis op lists up to 200 operations, against a Python list model.',
 'C19': 'Exhaustive over alphabet x position x declaration grid, Hypothesis declarations, and precedence sessions through research.backtest.',
 'C20': 'Exhaustive presence masks up to length 9 (12 thorough) + Hypothesis masks against a reference filler; model-based op sequences on the candle store; spacing validation matrix.',
}
for p in props:
    pid = p['id']
    path = os.path.join(HOME, 'vf', 'props', pid.lower() + '.py')
    if not os.path.exists(path):
        na.append(dict(property_id=pid, reason='check not built yet in this revision (planned: see DESIGN.md section 3); not a limit of the technique'))
        continue
    mod = importlib.import_module('vf.props.' + pid.lower())
    checks.append(dict(
        property_id=pid,
        quick_cmd=f'./check {pid} --tier quick',
        thorough_cmd=f'./check {pid} --tier thorough',
        evidence_file=f'/verif/evidence/{pid}.json',
        replay_cmd_template=f'./check {pid} --replay {{path}}',
        engine='vf',
        level_claimed=dict(category='exploration', text=LEVEL.get(pid, 'Generated-input search against an explicit oracle.') + ' Finds counterexamples within the explored bounds; proves nothing.',
                           design_ref=f'DESIGN.md section 3, {pid}'),
        level_note=getattr(mod, 'LEVEL_NOTE', '; '.join(getattr(mod, 'ASSUMPTIONS', [])) or 'trusted: the reference model in vf/, numpy, hypothesis'),
        technique=getattr(mod, 'TECHNIQUE', 'property-based testing'),
    ))
man = dict(
    version=1,
    setup_cmd='/venv/bin/python -c "import hypothesis" 2>/dev/null || /venv/bin/pip install -q --no-index --find-links /opt/veriftools/wheels hypothesis',
    hooks=dict(guard='JESSE_VERIF', enable='none needed: the harness wraps public/module-level callables at run time; no guarded source hooks exist in /repo',
               baseline_off_cmd='cd /repo && /venv/bin/python -m pytest -ra -q -p no:cacheprovider --timeout=900 --continue-on-collection-errors',
               source_commits=[], add_only=True),
    engines=[dict(name='vf', path='/verif/vf', serves_properties=[c['property_id'] for c in checks],
                  kind_free_text='Hypothesis-driven generators + bounded enumeration, reference models, sharded over 16 processes, collect-then-shrink, JSON replay files')],
    checks=checks,
    notes='Every check: exit 0 held / exit 1 + VIOLATION line / exit 2 harness error or inconclusive. Known findings: /verif/KNOWN_FINDINGS.txt. Seed via VERIF_SEED.',
    not_applicable=na,
)
json.dump(man, open(os.path.join(HOME, 'MANIFEST.json'), 'w'), indent=1)
print('checks:', [c['property_id'] for c in checks], 'not claimed:', len(na))
