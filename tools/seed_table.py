#!/venv/bin/python
"""Regenerates Appendix B of DESIGN.md from seeded/*/meta.json."""
import glob, json, os, re
HOME = os.path.dirname(os.path.dirname(os.path.abspath(__file__)))
rows = []
for d in sorted(glob.glob(os.path.join(HOME, 'seeded', '*'))):
    m = json.load(open(os.path.join(d, 'meta.json')))
    det = m.get('detected_by') or {}
    what = re.sub(r'\s+', ' ', (m.get('breaks') or ''))[:230]
    needs = re.sub(r'\s+', ' ', (m.get('needs_to_manifest') or ''))[:200]
    sigs = ', '.join(f'`{s}`' for s in (det.get('signatures') or [])[:2])
    rows.append(f"| {os.path.basename(d)} | {what} | {needs} | {'yes' if det.get('detected') else 'NO'}: {sigs} |")
tab = ("## Appendix B — seeded changes and which check catches them\n\n"
       "Each change was written by a fresh sub-agent that saw only the property text and a scratch worktree; each was confirmed here in a scratch copy "
       "(`tools/confirm_seed.sh`: its demonstration exits 0 before and 1 after `patch -p1`, and the 438 pinned tests pass with it) and then run "
       "against the owning property's quick check (`tools/seedtest.sh`: VERIF_REPO = scratch copy with the patch). `seeded/<id>/meta.json` holds the "
       "full text. Checks that first missed a change and were strengthened because of it are listed after the table.\n\n"
       "| Seed | Change (abridged) | Needs to manifest | Detected by the quick check: signatures |\n|---|---|---|---|\n" + '\n'.join(rows) + '\n')
extra = open(os.path.join(HOME, 'tools', 'seed_notes.md')).read() if os.path.exists(os.path.join(HOME, 'tools', 'seed_notes.md')) else ''
p = os.path.join(HOME, 'DESIGN.md')
s = open(p).read()
if '## Appendix B' in s:
    s = s[:s.index('## Appendix B')]
s = s.rstrip() + '\n\n' + tab + '\n' + extra
open(p, 'w').write(s)
print(len(rows), 'seeds')
