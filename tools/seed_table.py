#!/venv/bin/python
"""Regenerates Appendix B of DESIGN.md from seeded/*/meta.json."""
import glob, json, os, re
HOME = os.path.dirname(os.path.dirname(os.path.abspath(__file__)))
rows = []
for d in sorted(glob.glob(os.path.join(HOME, 'seeded', '*'))):
    m = json.load(open(os.path.join(d, 'meta.json')))
    det = m.get('detected_by') or {}
    what = re.sub(r'\s+', ' ', (m.get('breaks') or ''))[:230]
    needs = re.sub(r'\s+', ' ', (m.get('needs_to_manifest') or ''))[:200]
    sigs = ', '.join(f'`{s}`' for s in (det.get('signatures') or [])[:2])
    owner = os.path.basename(d).split('-')[0]
    m_ = re.search(r'check (C\d\d)', det.get('check') or '')
    by = f" (by the {m_.group(1)} check)" if m_ and m_.group(1) != owner else ''
    rows.append(f"| {os.path.basename(d)} | {what} | {needs} | {'yes' if det.get('detected') else 'NO'}{by}: {sigs} |")
tab = ("## Appendix B — seeded changes and which check catches them\n\n"
       "Each change was written by a fresh sub-agent that saw only the property text and a scratch worktree; each was confirmed here in a scratch copy "
       "(`tools/confirm_seed.sh`: its demonstration exits 0 before and 1 after `patch -p1`, and the 438 pinned tests pass with it) and then run "
       "against the owning property's quick check (`tools/seedtest.sh`: VERIF_REPO = scratch copy with the patch). `seeded/<id>/meta.json` holds the "
       "full text. Checks that first missed a change and were strengthened because of it are listed after the table.\n\n"
       "| Seed | Change (abridged) | Needs to manifest | Detected by the quick check: signatures |\n|---|---|---|---|\n" + '\n'.join(rows) + '\n')
extra = open(os.path.join(HOME, 'tools', 'seed_notes.md')).read() if os.path.exists(os.path.join(HOME, 'tools', 'seed_notes.md')) else ''
sp = os.path.join(HOME, 'tools', 'sensitivity_results.json')
if os.path.exists(sp):
    res = json.load(open(sp))
    lines = [f"| {r['property']} | {r['mutant']} | {r.get('file', '')} | {r['status']} | {', '.join('`' + x + '`' for x in r.get('signatures', [])[:1])} |" for r in res]
    killed = sum(1 for r in res if r['status'] == 'KILLED')
    extra += ("\n## Appendix C - sensitivity of the checks to catalogued one-line mutants\n\n"
              "`tools/sensitivity.py` applies one mutant from its catalogue (the mutants planned in section 3, adapted to the code as it is) to a scratch copy of /repo and runs the "
              f"owning property's quick check against it. {killed} of {len(res)} mutants are killed (exit 1). The survivors are equivalent with respect to the stated property: "
              "`skip-update-active-orders` / `active-list-keeps-executed` only leave final orders in an internal list that every reader filters by `is_active`; "
              "`split-bearish-above-open-wrong-high` changes the high of the *earlier* part of a split candle to a value that still satisfies everything C08 states about a split "
              "(valid parts, O/C/H/L kept, parts meet at the price). `floor-is-round` makes the repaired `size_to_qty` step down one ulp at a time for up to 10^8 iterations: the "
              "check runs into its task budget and reports INCONCLUSIVE (exit 2), which is the specified outcome for a time-out.\n\n"
              "| Prop | Mutant | File | Outcome | First signature |\n|---|---|---|---|---|\n" + '\n'.join(lines) + '\n')
p = os.path.join(HOME, 'DESIGN.md')
s = open(p).read()
if '## Appendix B' in s:
    s = s[:s.index('## Appendix B')]
s = s.rstrip() + '\n\n' + tab + '\n' + extra
open(p, 'w').write(s)
print(len(rows), 'seeds')
