#!/bin/bash
# tools/confirm_seed.sh <PROP> <k>   -- confirm seeded change k of /tmp/seed/<PROP>.out in a scratch copy: demo passes pristine,
# fails patched, pinned test-suite passes patched. Writes /verif/seeded/<PROP>-<k>/{patch.diff,demo.py,meta.json}
set -u
PROP=$1; K=$2
SRC=/tmp/seed/$PROP.out
OUT=/verif/seeded/$PROP-${3:-$K}
D=$(mktemp -d /dev/shm/confirm.XXXXXX)
rsync -a --exclude .git --exclude storage --exclude '*.pyc' /repo/ "$D/repo/" >/dev/null
mkdir -p "$D/cwd1" "$D/cwd2" "$OUT"
cp "$SRC/patch$K.diff" "$OUT/patch.diff"; cp "$SRC/demo$K.py" "$OUT/demo.py"
# demos hard-code /tmp/seed/<PROP> on sys.path in some cases: rewrite to the scratch copy
sed "s#/tmp/seed/$PROP#$D/repo#g" "$SRC/demo$K.py" > "$D/demo.py"
( cd "$D/cwd1" && PYTHONPATH="$D/repo" timeout 900 /venv/bin/python "$D/demo.py" > "$D/pristine.txt" 2>&1 ); P=$?
( cd "$D/repo" && patch -p1 -s < "$SRC/patch$K.diff" ) || { echo "$PROP-$K PATCH FAILED"; rm -rf "$D"; exit 3; }
( cd "$D/cwd2" && PYTHONPATH="$D/repo" timeout 900 /venv/bin/python "$D/demo.py" > "$D/patched.txt" 2>&1 ); C=$?
( cd "$D/repo" && PYTHONPATH="$D/repo" timeout 1800 /venv/bin/python -m pytest -q -p no:cacheprovider tests 2>&1 | tail -1 > "$D/suite.txt" )
SUITE=$(cat "$D/suite.txt")
/venv/bin/python - "$PROP" "$K" "$P" "$C" "$SUITE" "$SRC/meta.json" "$OUT/meta.json" <<'PY'
import json, sys
prop, k, p, c, suite, src, out = sys.argv[1:8]
m = json.load(open(src))
ch = m['changes'][int(k) - 1]
json.dump(dict(property=prop, breaks=ch.get('summary'), needs_to_manifest=ch.get('needs_to_manifest'),
               confirmed=dict(demo_exit_pristine=int(p), demo_exit_patched=int(c), suite_with_patch=suite,
                              how='scratch copy of /repo HEAD under /dev/shm; demo.py run with PYTHONPATH=<copy> before and after `patch -p1`; full pytest suite run on the patched copy'),
               detected_by=None), open(out, 'w'), indent=1)
print(prop, k, 'pristine', p, 'patched', c, suite)
PY
rm -rf "$D"
