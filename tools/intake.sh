#!/bin/bash
# tools/intake.sh <PROP> [k...] -- confirm the changes a sub-agent left in /tmp/seed/<PROP>.out (all, or the listed k) as the next
# free seeded/<PROP>-<n> ids, then sweep them against the owning check.
cd /verif
PROP=$1; shift
KS=${@:-$(ls /tmp/seed/$PROP.out/ | grep -o 'patch[0-9]*' | grep -o '[0-9]*' | sort -n)}
NEW=""
for k in $KS; do
  n=$(( $(ls seeded | grep "^$PROP-" | sed "s/$PROP-//" | sort -n | tail -1) + 1 ))
  tools/confirm_seed.sh $PROP $k $n 2>&1 | tail -1
  NEW="$NEW $PROP-$n"
done
tools/seed_sweep.sh $NEW
