#!/venv/bin/python
"""Sensitivity (mutation) testing of the checks themselves.

Copies /repo's python sources to a scratch directory, applies ONE catalogued one-line mutant, runs the owning
property's quick check against the copy (VERIF_REPO) and expects exit 1.  `--run-tests` also runs the pinned
test-suite on the mutated copy (to show the mutant survives it).  Results: tools/sensitivity_results.json.

usage: tools/sensitivity.py [--only C03,C04] [--jobs 2] [--run-tests]
"""
import argparse
import json
import os
import shutil
import subprocess
import sys
import tempfile
import time

HOME = os.path.dirname(os.path.dirname(os.path.abspath(__file__)))
REPO = '/repo'

# (property, id, file, old, new, occurrence[0-based])
M = [
    ('C01', 'step-htf-window-shifted-right', 'jesse/modes/backtest_mode.py', "candles[j]['candles'][(i - (count - 1)):(i + 1)]", "candles[j]['candles'][(i - (count - 1) + 1):(i + 2)]", 0),
    ('C01', 'fast-htf-window-shifted-right', 'jesse/modes/backtest_mode.py', "i - count + candles_step: i + candles_step],", "i - count + candles_step + 1: i + candles_step + 1],", 0),
    ('C07', 'step-htf-window-shifted-right', 'jesse/modes/backtest_mode.py', "candles[j]['candles'][(i - (count - 1)):(i + 1)]", "candles[j]['candles'][(i - (count - 1) + 1):(i + 2)]", 0),
    ('C07', 'aggregate-close-from-previous-minute', 'jesse/services/candle.py', "        candles[-1][2],\n", "        candles[-2][2] if len(candles) > 1 else candles[-1][2],\n", 0),
    ('C07', 'aggregate-volume-mean', 'jesse/services/candle.py', "candles[:, 5].sum(),", "candles[:, 5].mean(),", 0),
    ('C02', 'range-test-strict', 'jesse/services/candle.py', "return (price >= candle[4]) and (price <= candle[3])", "return (price > candle[4]) and (price < candle[3])", 0),
    ('C02', 'gap-up-low-not-widened', 'jesse/modes/backtest_mode.py', "candle[4] = min(previous_candle[2], candle[4])", "candle[4] = candle[4]", 0),
    ('C02', 'skip-update-active-orders', 'jesse/store/state_orders.py', "        self.active_storage[key] = active_orders", "        pass", 0),
    ('C03', 'average-entry-weights-swapped', 'jesse/helpers.py', "return (abs(order_qty) * order_price + abs(current_qty) *\n            current_entry_price)", "return (abs(current_qty) * order_price + abs(order_qty) *\n            current_entry_price)", 0),
    ('C03', 'margin-min-of-buy-sell', 'jesse/models/FuturesExchange.py', "total_spent += max(", "total_spent += min(", 0),
    ('C03', 'margin-forgets-unrealised-pnl', 'jesse/models/FuturesExchange.py', "total_spent -= position.pnl", "total_spent -= 0", 0),
    ('C03', 'rejection-boundary-inclusive', 'jesse/models/FuturesExchange.py', "if effective_order_size > self.available_margin:", "if effective_order_size >= self.available_margin * 0.999:", 0),
    ('C03', 'short-pnl-sign', 'jesse/helpers.py', "    if trade_type == 'short':\n        profit *= -1\n\n    fee = trading_fee", "    if trade_type == 'shortX':\n        profit *= -1\n\n    fee = trading_fee", 0),
    ('C03', 'cancel-does-not-release-buy', 'jesse/models/FuturesExchange.py', "                index = find_order_index(self.buy_orders[base_asset].array, order_array)\n                if index != -1:", "                index = find_order_index(self.buy_orders[base_asset].array, order_array)\n                if index == -2:", 0),
    ('C04', 'buy-fill-without-fee', 'jesse/models/SpotExchange.py', "sum_floats(self.assets[base_asset], abs(order.qty) * (1 - self.fee_rate))", "sum_floats(self.assets[base_asset], abs(order.qty))", 0),
    ('C04', 'cancel-releases-less', 'jesse/models/SpotExchange.py', "self.assets[self.settlement_currency] = sum_floats(self.assets[self.settlement_currency], abs(order.qty) * order.price)", "self.assets[self.settlement_currency] = sum_floats(self.assets[self.settlement_currency], abs(order.qty) * order.price * (1 - self.fee_rate))", 0),
    ('C04', 'oversell-test-inclusive', 'jesse/models/SpotExchange.py', "if order_qty > base_balance:", "if order_qty >= base_balance:", 0),
    ('C04', 'market-sell-ignores-resting-limit-sells', 'jesse/models/SpotExchange.py', "order_qty = sum_floats(abs(order.qty), self.limit_orders_sum.get(order.symbol, 0))", "order_qty = abs(order.qty)", 0),
    ('C05', 'cancel-executed-order', 'jesse/models/Order.py', "    def cancel(self, silent=False, source='') -> None:\n        if self.is_canceled or self.is_executed:", "    def cancel(self, silent=False, source='') -> None:\n        if self.is_canceled:", 0),
    ('C05', 'active-list-keeps-executed', 'jesse/store/state_orders.py', "if not order.is_canceled and not order.is_executed", "if not order.is_canceled", 0),
    ('C06', 'exit-price-unweighted', 'jesse/models/ClosedTrade.py', "        return (orders[:, 0] * orders[:, 1]).sum() / orders[:, 0].sum()", "        return orders[:, 1].mean()", 1),
    ('C06', 'pnl-fee-on-entry-only', 'jesse/helpers.py', "fee = trading_fee * qty * (entry_price + exit_price)", "fee = trading_fee * qty * entry_price", 0),
    ('C06', 'increase-threshold', 'jesse/strategies/Strategy.py', "        elif abs(after_qty) > abs(before_qty):\n            effect = 'increased_position'", "        elif abs(after_qty) > abs(before_qty) * 1.5:\n            effect = 'increased_position'", 0),
    ('C08', 'red-green-swapped-in-sort', 'jesse/modes/backtest_mode.py', "is_red = short_candles[i, 1] > short_candles[i, 2]", "is_red = short_candles[i, 1] < short_candles[i, 2]", 0),
    ('C08', 'split-bearish-above-open-wrong-high', 'jesse/services/candle.py', "            timestamp, o, price, price, o, v\n        ]), np.array([\n            timestamp, price, c, h, l, v", "            timestamp, o, price, h, o, v\n        ]), np.array([\n            timestamp, price, c, h, l, v", 0),
    ('C08', 'no-resort-after-fill', 'jesse/modes/backtest_mode.py', "                    order.execute()\n                    executing_orders = _get_executing_orders(exchange, symbol, current_temp_candle)\n                    if len(executing_orders) > 1:", "                    order.execute()\n                    executing_orders = _get_executing_orders(exchange, symbol, current_temp_candle)\n                    if len(executing_orders) > 99:", 0),
    ('C09', 'fill-at-liquidation-price', 'jesse/modes/backtest_mode.py', "'price': p.bankruptcy_price", "'price': p.liquidation_price", 0),
    ('C09', 'maintenance-sign', 'jesse/models/Position.py', "return self.entry_price * (1 - self._initial_margin_rate + 0.004)", "return self.entry_price * (1 - self._initial_margin_rate - 0.004)", 0),
    ('C09', 'liquidations-not-counted', 'jesse/modes/backtest_mode.py', "store.app.total_liquidations += 1", "store.app.total_liquidations += 0", 0),
    ('C09', 'cross-instead-of-isolated', 'jesse/modes/backtest_mode.py', "    if p.mode != 'isolated':\n        return", "    if p.mode != 'cross':\n        return", 0),
    ('C10', 'near-threshold-ten-times', 'jesse/helpers.py', "def is_price_near(order_price, price_to_compare, percentage_threshold=0.00015):", "def is_price_near(order_price, price_to_compare, percentage_threshold=0.0015):", 0),
    ('C10', 'buy-stop-routed-as-limit', 'jesse/strategies/Strategy.py', "            elif o[1] > price_to_compare:\n                self.broker.start_profit_at(sides.BUY, o[0], o[1])", "            elif o[1] > price_to_compare:\n                self.broker.buy_at(o[0], o[1])", 0),
    ('C10', 'exit-limit-not-reduce-only', 'jesse/services/broker.py', "            return self.api.limit_order(\n                self.exchange,\n                self.symbol,\n                qty,\n                price,\n                side,\n                reduce_only=True", "            return self.api.limit_order(\n                self.exchange,\n                self.symbol,\n                qty,\n                price,\n                side,\n                reduce_only=False", 0),
    ('C10', 'old-take-profit-not-cancelled', 'jesse/strategies/Strategy.py', "                        if o.is_take_profit and (o.is_active or o.is_queued):\n                            self.broker.cancel_order(o.id)", "                        if o.is_take_profit and (o.is_active or o.is_queued):\n                            pass", 0),
    ('C10', 'cancel-when-told-not-to', 'jesse/strategies/Strategy.py', "if len(self.entry_orders) and self.is_close and self.should_cancel_entry():", "if len(self.entry_orders) and self.is_close and (self.should_cancel_entry() or True):", 0),
    ('C11', 'cache-not-cleared', 'jesse/research/backtest.py', "    jh.CACHED_CONFIG.clear()\n", "    pass\n", 0),
    ('C11', 'candles-not-copied', 'jesse/research/backtest.py', "trading_candles_dict = copy.deepcopy(candles)", "trading_candles_dict = candles", 0),
    ('C12', 'chunk-is-max-timeframe', 'jesse/modes/backtest_mode.py', "return np.gcd.reduce(consider_time_frames)", "return max(consider_time_frames)", 0),
    ('C12', 'fast-routes-executed-one-chunk-late', 'jesse/modes/backtest_mode.py', "        elif (candle_index + candles_step) % count == 0:\n            # print candle\n            if jh.is_debuggable(\"trading_candles\"):", "        elif (candle_index + candles_step) % count == 1 % count:\n            # print candle\n            if jh.is_debuggable(\"trading_candles\"):", 0),
    ('C13', 'ema-seeded-with-global-mean', 'jesse/indicators/ema.py', "initial = np.mean(source[:period])", "initial = np.mean(source)", 0),
    ('C13', 'roc-uses-future-denominator', 'jesse/indicators/roc.py', "res[period:] = (source[period:] / source[:-period] - 1) * 100", "res[:-period] = (source[period:] / source[:-period] - 1) * 100", 0),
    ('C14', 'sma-single-is-second-last', 'jesse/indicators/sma.py', "    return res if sequential else res[-1]", "    return res if sequential else res[-2]", 0),
    ('C14', 'slice-also-when-sequential', 'jesse/helpers.py', "    if not sequential and candles.shape[0] > warmup_candles_num:", "    if candles.shape[0] > warmup_candles_num:", 0),
    ('C15', 'ema-alpha-2-over-p', 'jesse/indicators/ema.py', "alpha = 2 / (period + 1)", "alpha = 2 / period", 0),
    ('C15', 'bollinger-sample-std', 'jesse/indicators/bollinger_bands.py', "variance = sum_sq / period - mean * mean", "variance = (sum_sq / period - mean * mean) * period / max(period - 1, 1)", 0),
    ('C15', 'ma-table-wma-is-dema', 'jesse/indicators/ma.py', "        from . import wma\n        res = wma(candles, period", "        from . import dema as wma\n        res = wma(candles, period", 0),
    ('C15', 'willr-sign', 'jesse/indicators/willr.py', "/ np.where(denom == 0, 1, denom)) * -100", "/ np.where(denom == 0, 1, denom)) * 100", 0),
    ('C15', 'mfi-uses-close', 'jesse/indicators/mfi.py', "typical_prices = (high + low + close) / 3.0", "typical_prices = close", 0),
    ('C15', 'atr-ignores-previous-close', 'jesse/indicators/atr.py', "        hc = abs(high[i] - close[i-1])", "        hc = 0.0", 0),
    ('C16', 'win-rate-over-total', 'jesse/services/metrics.py', "win_rate = len(winning_trades) / (len(losing_trades) + len(winning_trades))", "win_rate = len(winning_trades) / total_completed", 0),
    ('C16', 'gross-loss-from-winners', 'jesse/services/metrics.py', "gross_loss = losing_trades['PNL'].sum()", "gross_loss = -winning_trades['PNL'].sum()", 0),
    ('C16', 'sharpe-252', 'jesse/services/metrics.py', "sharpe_ratio(daily_return, periods=365)", "sharpe_ratio(daily_return, periods=252)", 0),
    ('C16', 'futures-equity-without-upnl', 'jesse/modes/utils.py', "total_balances += pos.pnl", "total_balances += 0", 0),
    ('C17', 'fee-added-instead-of-removed', 'jesse/utils.py', "        position_size *= 1 - fee_rate * 3", "        position_size *= 1 + fee_rate * 3", 0),
    ('C17', 'floor-is-round', 'jesse/helpers.py', "return math.floor(num * temp) / temp", "return round(num * temp) / temp", 0),
    ('C17', 'round-decimals-up', 'jesse/helpers.py', "        return np.floor(number * factor) / factor", "        return np.ceil(number * factor) / factor", 0),
    ('C17', 'limit-stop-loss-max', 'jesse/utils.py', "risk = min(risk, max_allowed_risk)", "risk = max(risk, max_allowed_risk)", 0),
    ('C17', 'table-45m-is-40', 'jesse/utils.py', "timeframes.MINUTE_45: 45,", "timeframes.MINUTE_45: 40,", 0),
    ('C18', 'delete-keeps-index', 'jesse/libs/dynamic_numpy_array/__init__.py', "        self.array = np.delete(self.array, index, axis=axis)\n        self.index -= 1", "        self.array = np.delete(self.array, index, axis=axis)\n        self.index -= 0", 0),
    ('C18', 'setitem-negative-stop', 'jesse/libs/dynamic_numpy_array/__init__.py', "                stop = max((self.index + 1) - abs(stop), 0)", "                stop = max((self.index) - abs(stop), 0)", 0),
    ('C19', 'range-120', 'jesse/helpers.py', "convert_number(119, 40, h['max'], h['min'], ord(gene))\n                )", "convert_number(120, 40, h['max'], h['min'], ord(gene))\n                )", 0),
    ('C19', 'int-without-round', 'jesse/helpers.py', "            decoded_gene = int(\n                round(\n                    convert_number(119, 40, h['max'], h['min'], ord(gene))\n                )\n            )", "            decoded_gene = int(\n                (\n                    convert_number(119, 40, h['max'], h['min'], ord(gene))\n                )\n            )", 0),
    ('C19', 'defaults-override-given-hp', 'jesse/strategies/Strategy.py', "if self.hp is None and len(self.hyperparameters()) > 0:", "if len(self.hyperparameters()) > 0:", 0),
    ('C20', 'fill-with-previous-open', 'jesse/modes/import_candles_mode/__init__.py', "last_close = candles[-1]['close']", "last_close = candles[-1]['open']", 0),
    ('C20', 'started-never-set', 'jesse/modes/import_candles_mode/__init__.py', "            started = True", "            started = False", 0),
    ('C20', 'repeat-last-appends', 'jesse/store/state_candles.py', "            arr[-1] = candle\n", "            arr.append(candle)\n", 0),
    ('C20', 'spacing-check-rows-1-2', 'jesse/research/backtest.py', "if candle_set[1][0] - candle_set[0][0] != 60_000:", "if candle_set[2][0] - candle_set[1][0] != 60_000:", 0),
]


def apply(root, file, old, new, occ):
    p = os.path.join(root, file)
    s = open(p).read()
    idx = -1
    for _ in range(occ + 1):
        idx = s.find(old, idx + 1)
        if idx < 0:
            return False
    open(p, 'w').write(s[:idx] + new + s[idx + len(old):])
    return True


def run_one(m, run_tests=False):
    prop, mid, file, old, new, occ = m
    base = '/dev/shm' if os.path.isdir('/dev/shm') else None
    d = tempfile.mkdtemp(prefix='sens-', dir=base)
    try:
        subprocess.run(['rsync', '-a', '--exclude', '.git', '--exclude', 'storage', '--exclude', '*.pyc', REPO + '/', d + '/'], check=True)
        if not apply(d, file, old, new, occ):
            return dict(property=prop, mutant=mid, status='CATALOGUE-STALE')
        t0 = time.time()
        env = dict(os.environ, VERIF_REPO=d)
        p = subprocess.run([os.path.join(HOME, 'check'), prop, '--tier', 'quick'], env=env, stdout=subprocess.PIPE, stderr=subprocess.STDOUT, cwd=HOME)
        out = p.stdout.decode(errors='replace')
        sigs = sorted({l.split('signature=')[1].split(' count=')[0] for l in out.splitlines() if l.startswith('  signature=')})[:3]
        res = dict(property=prop, mutant=mid, file=file, exit_code=p.returncode, status='KILLED' if p.returncode == 1 else ('SURVIVED' if p.returncode == 0 else 'INCONCLUSIVE'),
                   signatures=sigs, wall_s=round(time.time() - t0, 1))
        if run_tests:
            t = subprocess.run(['/venv/bin/python', '-m', 'pytest', '-q', '-p', 'no:cacheprovider', 'tests'], cwd=d, env=dict(os.environ, PYTHONPATH=d),
                               stdout=subprocess.PIPE, stderr=subprocess.STDOUT)
            res['suite'] = t.stdout.decode(errors='replace').strip().splitlines()[-1][:80]
        return res
    finally:
        shutil.rmtree(d, ignore_errors=True)


def main():
    ap = argparse.ArgumentParser()
    ap.add_argument('--only', default='')
    ap.add_argument('--run-tests', action='store_true')
    a = ap.parse_args()
    only = set(x for x in a.only.split(',') if x)
    results = []
    path = os.path.join(HOME, 'tools', 'sensitivity_results.json')
    old = {(r['property'], r['mutant']): r for r in (json.load(open(path)) if os.path.exists(path) else [])}
    for m in M:
        if only and m[0] not in only:
            continue
        r = run_one(m, a.run_tests)
        old[(r['property'], r['mutant'])] = r
        print(json.dumps(r), flush=True)
    json.dump(sorted(old.values(), key=lambda r: (r['property'], r['mutant'])), open(path, 'w'), indent=1)


if __name__ == '__main__':
    main()
