#!/bin/bash
# tools/run_seeds.sh <seed>... -- every registered quick check at each given VERIF_SEED; prints one line per run that is not a clean exit 0
cd "$(dirname "$0")/.."
for sd in "$@"; do
  for p in $(/venv/bin/python -c "import json;print(' '.join(c['property_id'] for c in json.load(open('MANIFEST.json'))['checks']))"); do
    VERIF_SEED=$sd ./check $p --tier quick > /tmp/runseeds_${sd}_$p.log 2>&1; rc=$?
    [ $rc -ne 0 ] && echo "seed=$sd $p rc=$rc $(grep -E '^  signature|HARNESS|INCONCL' /tmp/runseeds_${sd}_$p.log | head -3 | cut -c1-250)"
  done
  echo "seed=$sd done"
done
