#!/bin/bash
# tools/seedtest.sh <PROP> <patch.diff> [tier]  -- runs the property's check against a scratch copy of /repo with the patch applied
set -u
PROP=$1; PATCH=$(readlink -f "$2"); TIER=${3:-quick}
D=$(mktemp -d /dev/shm/seedtest.XXXXXX)
rsync -a --exclude .git --exclude storage --exclude '*.pyc' /repo/ "$D/" >/dev/null
( cd "$D" && git init -q . 2>/dev/null; patch -p1 -s < "$PATCH" ) || { echo "PATCH FAILED"; rm -rf "$D"; exit 3; }
cd /verif
VERIF_REPO="$D" ./check "$PROP" --tier "$TIER" > "$D/out.txt" 2>&1
rc=$?
grep -E "^VIOLATION|^KNOWN|HARNESS|INCONCLUSIVE|^\[$PROP\] tier" "$D/out.txt" | head -${LINES_MAX:-8}
grep -E "^  signature" "$D/out.txt" | head -4
echo "exit=$rc"
rm -rf "$D"
exit $rc
