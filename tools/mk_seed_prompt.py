#!/venv/bin/python
"""tools/mk_seed_prompt.py <PROP> [n_changes] -- prints the brief handed to a fresh sub-agent that is asked for seeded
changes: the property record, its scratch worktree, and the output protocol (nothing from /verif's checks)."""
import json, sys

prop = sys.argv[1]
n = int(sys.argv[2]) if len(sys.argv) > 2 else 3
rec = None
for line in open('/verif/properties.jsonl'):
    r = json.loads(line)
    if r['id'] == prop:
        rec = r
wt = f'/tmp/seed/{prop}'
out = f'/tmp/seed/{prop}.out'
print(f"""You are working on a scratch git worktree of the jesse-ai/jesse repository (a Python crypto algo-trading framework with a
candle-driven backtest simulator) at {wt}. Work ONLY inside {wt} and {out}. Never edit or run anything in /repo, and do not read or
touch /verif at all.

How to run code against YOUR worktree: /venv/bin/python has jesse installed in editable mode pointing at /repo, so you MUST put your
worktree first on the path: `cd {wt} && PYTHONPATH={wt} /venv/bin/python prog.py` (check with `python -c "import jesse; print(jesse.__file__)"`).
jesse creates a `storage/` directory relative to the cwd at import; run from inside {wt} or a temp dir, never from /repo.
The existing test suite: `cd {wt} && PYTHONPATH={wt} /venv/bin/python -m pytest -q -p no:cacheprovider tests` (438 tests, about 40-90 s).
There is no network.

Here is a semantic property of jesse that is supposed to hold (JSON record; `anchors` point to the code it lives in):

{json.dumps(rec, indent=1)}

YOUR TASK: produce {n} independent changes to the jesse sources (files under {wt}/jesse/, never the tests) that each BREAK this property,
while (a) the code still imports and runs and (b) the whole existing test suite still passes unchanged. Requirements for each change:

* It must look like a plausible maintainer commit: a refactor, a performance shortcut, a tidy-up, a well-meant "bug fix", a generalisation.
  Small (a few lines to a few dozen lines). No comments that give the defect away.
* It must need something SPECIFIC to manifest: a particular interleaving or multi-step sequence of operations, an unusual but legal input or
  configuration, a tie / boundary value, a crash or exception at a particular point, or two cooperating sites that each look fine alone.
  NOT something that ordinary use (a simple backtest, a default call) would expose at once. Think about which corners of the property's
  quantifier a reasonable checker might forget, and hide there.
* The {n} changes must use different mechanisms / code sites from each other. At least two of them must live OUTSIDE the most obvious function for this property: look at callers, helpers, state/store classes, configuration handling, caching layers, rarely used options and modes, and interactions between features.
* Each change is independent and made against the clean HEAD of the worktree (run `git checkout -- .` between changes). NEVER use
  `git stash` (the stash is shared with other worktrees): save a change with `git diff > file`, restore with `patch -p1 < file`.
* tests/test_state_orders.py draws random order sizes and fails now and then on its own; re-run once before blaming your change.

For each change k = 1..{n} write into {out}/ (create the directory):
* patch<k>.diff : `git diff` against HEAD (must apply with `patch -p1` at the repository root of a clean checkout);
* demo<k>.py    : a standalone demonstration program (plain python, no pytest, no hard-coded worktree path: it must simply `import jesse`
  from whatever PYTHONPATH provides). It exits 0 and prints what it saw on the UNCHANGED code, and exits 1 (printing what violated the
  property) on the changed code. It must be deterministic and finish within a minute or two.
* and one file meta.json : {{"changes": [{{"summary": "<file/function and what was changed, with the cover story>", "needs_to_manifest":
  "<precisely what inputs / sequence / configuration are needed for the property to be violated, and what still behaves as before>",
  "files": ["..."]}}, ... one entry per change in order ...]}}

Before you finish, VERIFY each change yourself: demo<k>.py exits 0 on the clean worktree and 1 with patch<k>.diff applied, and the full
test suite passes with patch<k>.diff applied. Leave the worktree clean (`git checkout -- .`, no stray files inside {wt} except storage/).
In your final answer list, per change, a one-line summary and the verification results you observed.""")
