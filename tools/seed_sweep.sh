#!/bin/bash
# tools/seed_sweep.sh [ids...] -- runs the owning property's quick check against every kept seeded change (and, when the owner
# misses it, the checks listed under "cross_checks" in its meta.json: some changes break a neighbouring property's statement
# more directly than the one they were written for), records the outcome in its meta.json
cd /verif
IDS=${@:-$(ls seeded)}
for id in $IDS; do
  P=${id%%-*}
  [ -f seeded/$id/patch.diff ] || continue
  CROSS=$(/venv/bin/python -c "import json;print(' '.join(json.load(open('/verif/seeded/$id/meta.json')).get('cross_checks', [])))")
  for Q in $P $CROSS; do
    out=$(LINES_MAX=40 timeout 2400 tools/seedtest.sh $Q seeded/$id/patch.diff 2>&1)
    rc=$(echo "$out" | grep -o "exit=[0-9]*" | tail -1 | cut -d= -f2)
    [ "$rc" = "1" ] && break
  done
  sigs=$(echo "$out" | grep "^  signature" | grep -v KNOWN | sed 's/ count=.*//; s/^  signature=//' | sort -u | head -4 | tr '\n' ' ')
  /venv/bin/python - "$id" "$Q" "$rc" "$sigs" <<'PY'
import json, sys, time
id_, p, rc, sigs = sys.argv[1:5]
f = f'/verif/seeded/{id_}/meta.json'
m = json.load(open(f))
m['detected_by'] = dict(check=f'./check {p} --tier quick (VERIF_REPO = scratch copy of /repo with patch.diff applied)', exit_code=int(rc or -1),
                        detected=(rc == '1'), signatures=sigs.split())
json.dump(m, open(f, 'w'), indent=1)
print(id_, f'DETECTED by {p}' if rc == '1' else f'MISSED(rc={rc})', sigs[:160])
PY
done
