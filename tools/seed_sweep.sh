#!/bin/bash
# tools/seed_sweep.sh [ids...] -- runs the owning property's quick check against every kept seeded change, records the outcome in its meta.json
cd /verif
IDS=${@:-$(ls seeded)}
for id in $IDS; do
  P=${id%%-*}
  [ -f seeded/$id/patch.diff ] || continue
  out=$(LINES_MAX=40 timeout 2400 tools/seedtest.sh $P seeded/$id/patch.diff 2>&1)
  rc=$(echo "$out" | grep -o "exit=[0-9]*" | tail -1 | cut -d= -f2)
  sigs=$(echo "$out" | grep "^  signature" | grep -v KNOWN | sed 's/ count=.*//; s/^  signature=//' | sort -u | head -4 | tr '\n' ' ')
  /venv/bin/python - "$id" "$P" "$rc" "$sigs" <<'PY'
import json, sys, time
id_, p, rc, sigs = sys.argv[1:5]
f = f'/verif/seeded/{id_}/meta.json'
m = json.load(open(f))
m['detected_by'] = dict(check=f'./check {p} --tier quick (VERIF_REPO = scratch copy of /repo with patch.diff applied)', exit_code=int(rc or -1),
                        detected=(rc == '1'), signatures=sigs.split())
json.dump(m, open(f, 'w'), indent=1)
print(id_, 'DETECTED' if rc == '1' else f'MISSED(rc={rc})', sigs[:160])
PY
done
